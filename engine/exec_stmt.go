package main

import (
	"go/ast"
	"go/token"
	"go/types"
)

type ctl int

const (
	ctlNone ctl = iota
	ctlReturn
	ctlBreak
	ctlContinue
	ctlFallthrough
)

// mine reports whether a break/continue that reached a loop or switch labelled myLabel is meant for it.
func (ex *Exec) mine(myLabel string) bool {
	if ex.brLabel == "" || ex.brLabel == myLabel {
		ex.brLabel = ""
		return true
	}
	return false
}

// takeLabel returns the label attached to the statement being entered (set by the enclosing LabeledStmt).
func (ex *Exec) takeLabel() string {
	l := ex.pendingLabel
	ex.pendingLabel = ""
	return l
}

func (ex *Exec) declare(id *ast.Ident, t types.Type, v Value) {
	if id.Name == "_" {
		return
	}
	info := ex.frame().pkg.Info
	o := info.Defs[id]
	if o == nil {
		o = info.Uses[id]
	}
	obj := ex.st.newObj(id.Name, t)
	obj.Cells = make([]Value, leafCount(t))
	if v == nil {
		v = ex.zeroValue(t)
	}
	v = ex.coerce(v, t)
	if a, ok := v.(AggV); ok && a.Sym != nil {
		obj.Sym = a.Sym
	} else {
		ex.storeInit(obj, t, v)
	}
	fm := ex.frame()
	fm.vars[o] = obj
	if fm.byName == nil {
		fm.byName = map[string]*Obj{}
		fm.types = map[string]types.Type{}
	}
	fm.byName[id.Name] = obj
	fm.types[id.Name] = t
}

func (ex *Exec) assignTo(lhs ast.Expr, v Value) {
	if id, ok := lhs.(*ast.Ident); ok && id.Name == "_" {
		return
	}
	l := ex.lvalue(lhs)
	if l.SymIdx != nil {
		ex.unsupported("store into abstract array")
	}
	ex.store(l.Obj, l.Off, l.Typ, v)
}

func (ex *Exec) execBlock(stmts []ast.Stmt) ctl {
	for _, s := range stmts {
		if c := ex.execStmt(s); c != ctlNone {
			return c
		}
	}
	return ctlNone
}

func (ex *Exec) execStmt(s ast.Stmt) ctl {
	ex.steps++
	if s != nil && len(ex.frames) == 1 {
		ex.lastWhere = ex.where(s)
	}
	if ex.steps > 2000000 {
		ex.unsupported("step limit exceeded")
	}
	switch s := s.(type) {
	case *ast.EmptyStmt:
		return ctlNone
	case *ast.BlockStmt:
		return ex.execBlock(s.List)
	case *ast.ExprStmt:
		ex.eval(s.X)
		return ctlNone
	case *ast.DeclStmt:
		gd := s.Decl.(*ast.GenDecl)
		if gd.Tok != token.VAR {
			return ctlNone
		}
		for _, sp := range gd.Specs {
			vs := sp.(*ast.ValueSpec)
			if len(vs.Values) == 1 && len(vs.Names) > 1 {
				tv := ex.eval(vs.Values[0]).(TupleV)
				for i, n := range vs.Names {
					ex.declare(n, ex.frame().pkg.Info.Defs[n].Type(), tv[i])
				}
				continue
			}
			for i, n := range vs.Names {
				var v Value
				if i < len(vs.Values) {
					v = ex.eval(vs.Values[i])
				}
				if n.Name == "_" {
					continue
				}
				ex.declare(n, ex.frame().pkg.Info.Defs[n].Type(), v)
			}
		}
		return ctlNone
	case *ast.AssignStmt:
		prev := ex.curAssign
		ex.curAssign = s
		ex.execAssign(s)
		ex.curAssign = prev
		return ctlNone
	case *ast.IncDecStmt:
		l := ex.lvalue(s.X)
		x := ex.loadLoc(l).(*Term)
		mt := machType(l.Typ)
		op := token.ADD
		if s.Tok == token.DEC {
			op = token.SUB
		}
		ex.store(l.Obj, l.Off, l.Typ, ex.binop(op, x, ex.constOf(bi(1), mt), mt, ex.where(s)))
		return ctlNone
	case *ast.ReturnStmt:
		var vals []Value
		if len(s.Results) == 1 {
			v := ex.eval(s.Results[0])
			if tv, ok := v.(TupleV); ok {
				vals = tv
			} else {
				vals = []Value{v}
			}
		} else {
			for _, r := range s.Results {
				vals = append(vals, ex.eval(r))
			}
		}
		if fn := ex.frame().fn; fn != nil {
			rts := resultTypes(fn)
			for i := range vals {
				if i < len(rts) {
					vals[i] = ex.coerce(vals[i], rts[i])
				}
			}
		}
		ex.frame().results = vals
		return ctlReturn
	case *ast.IfStmt:
		if s.Init != nil {
			if c := ex.execStmt(s.Init); c != ctlNone {
				return c
			}
		}
		c := ex.evalTerm(s.Cond)
		if ex.decide(c, ex.where(s)) {
			return ex.execBlock(s.Body.List)
		} else if s.Else != nil {
			return ex.execStmt(s.Else)
		}
		return ctlNone
	case *ast.SwitchStmt:
		return ex.execSwitch(s)
	case *ast.ForStmt:
		return ex.execFor(s)
	case *ast.RangeStmt:
		return ex.execRange(s)
	case *ast.DeferStmt:
		ex.execDefer(s)
		return ctlNone
	case *ast.LabeledStmt:
		ex.pendingLabel = s.Label.Name
		c := ex.execStmt(s.Stmt)
		ex.pendingLabel = ""
		return c
	case *ast.BranchStmt:
		ex.brLabel = ""
		if s.Label != nil {
			ex.brLabel = s.Label.Name
		}
		switch s.Tok {
		case token.BREAK:
			return ctlBreak
		case token.CONTINUE:
			return ctlContinue
		case token.FALLTHROUGH:
			return ctlFallthrough
		}
	}
	ex.unsupported("statement %T at %s", s, ex.where(s))
	return ctlNone
}

func (ex *Exec) execAssign(s *ast.AssignStmt) {
	info := ex.frame().pkg.Info
	if s.Tok != token.ASSIGN && s.Tok != token.DEFINE {
		// op-assign
		l := ex.lvalue(s.Lhs[0])
		x := ex.loadLoc(l).(*Term)
		y := ex.evalTerm(s.Rhs[0])
		mt := machType(l.Typ)
		var op token.Token
		switch s.Tok {
		case token.ADD_ASSIGN:
			op = token.ADD
		case token.SUB_ASSIGN:
			op = token.SUB
		case token.MUL_ASSIGN:
			op = token.MUL
		case token.OR_ASSIGN:
			op = token.OR
		case token.AND_ASSIGN:
			op = token.AND
		case token.XOR_ASSIGN:
			op = token.XOR
		case token.SHL_ASSIGN:
			op = token.SHL
		case token.SHR_ASSIGN:
			op = token.SHR
		default:
			ex.unsupported("assign op %v", s.Tok)
		}
		if (op == token.SHL || op == token.SHR) && ex.mode.BV && y.sort.W != x.sort.W {
			y = ZExt(y, x.sort.W)
		}
		ex.store(l.Obj, l.Off, l.Typ, ex.binop(op, x, y, mt, ex.where(s)))
		return
	}
	var vals []Value
	if len(s.Rhs) == 1 && len(s.Lhs) > 1 {
		vals = ex.eval(s.Rhs[0]).(TupleV)
	} else {
		for _, r := range s.Rhs {
			vals = append(vals, ex.eval(r))
		}
	}
	for i, lh := range s.Lhs {
		if id, ok := lh.(*ast.Ident); ok {
			if id.Name == "_" {
				continue
			}
			if s.Tok == token.DEFINE {
				if o := info.Defs[id]; o != nil {
					ex.declare(id, o.Type(), vals[i])
					continue
				}
			}
		}
		ex.assignTo(lh, vals[i])
	}
}

func (ex *Exec) execSwitch(s *ast.SwitchStmt) ctl {
	myLabel := ex.takeLabel()
	if s.Init != nil {
		ex.execStmt(s.Init)
	}
	var tag *Term
	var mt mtype
	if s.Tag != nil {
		tag = ex.evalTerm(s.Tag)
		mt = machType(ex.typeOf(s.Tag))
	}
	var def *ast.CaseClause
	clauses := s.Body.List
	var run func(cc *ast.CaseClause) ctl
	run = func(cc *ast.CaseClause) ctl {
		c := ex.execBlock(cc.Body)
		if c == ctlBreak && ex.mine(myLabel) {
			return ctlNone
		}
		if c == ctlFallthrough {
			for i, st := range clauses {
				if st == ast.Stmt(cc) && i+1 < len(clauses) {
					return run(clauses[i+1].(*ast.CaseClause))
				}
			}
			return ctlNone
		}
		return c
	}
	for _, st := range s.Body.List {
		cc := st.(*ast.CaseClause)
		if cc.List == nil {
			def = cc
			continue
		}
		var cond *Term = BoolC(false)
		for _, ce := range cc.List {
			v := ex.evalTerm(ce)
			if tag != nil {
				cond = Or(cond, ex.cmpop(token.EQL, tag, v, mt))
			} else {
				cond = Or(cond, v)
			}
		}
		if ex.decide(cond, ex.where(cc)) {
			return run(cc)
		}
	}
	if def != nil {
		return run(def)
	}
	return ctlNone
}

func (ex *Exec) execFor(s *ast.ForStmt) ctl {
	myLabel := ex.takeLabel()
	ord := 0
	if len(ex.frames) == 1 {
		ex.loopCount++
		ord = ex.loopCount
	}
	if s.Init != nil {
		ex.execStmt(s.Init)
	}
	if ord > 0 && ex.fc != nil && ex.fc.Loops[ord] != nil {
		return ex.execLoopCut(s, ex.fc.Loops[ord], ord, myLabel)
	}
	for iter := 0; ; iter++ {
		if iter > 100000 {
			ex.unsupported("loop iteration limit at %s", ex.where(s))
		}
		if s.Cond != nil {
			c := ex.evalTerm(s.Cond)
			if !c.IsConst() {
				ex.unsupported("loop with symbolic condition and no invariant at %s (loop #%d of %s)", ex.where(s), ord, ex.fn.QName())
			}
			if c.IsFalse() {
				return ctlNone
			}
		}
		switch ex.execBlock(s.Body.List) {
		case ctlReturn:
			return ctlReturn
		case ctlBreak:
			if ex.mine(myLabel) {
				return ctlNone
			}
			return ctlBreak
		case ctlContinue:
			if !ex.mine(myLabel) {
				return ctlContinue
			}
		}
		if s.Post != nil {
			ex.execStmt(s.Post)
		}
	}
}

func (ex *Exec) execRange(s *ast.RangeStmt) ctl {
	myLabel := ex.takeLabel()
	if len(ex.frames) == 1 {
		ex.loopCount++
	}
	xt := ex.typeOf(s.X)
	n := 0
	var elemAt func(i int) Value
	switch u := xt.Underlying().(type) {
	case *types.Basic: // range over int
		t := ex.evalTerm(s.X)
		if !t.IsConst() {
			ex.unsupported("range over symbolic int")
		}
		n = int(t.val.Int64())
	case *types.Slice:
		sv := ex.eval(s.X).(SliceV)
		if sv.Abs != nil {
			ex.unsupported("range over abstract slice at %s", ex.where(s))
		}
		n = sv.Len
		es := leafCount(u.Elem())
		elemAt = func(i int) Value { return ex.load(sv.Obj, sv.Off+i*es, u.Elem()) }
	case *types.Pointer:
		// range over a pointer to an array: the elements are read through the pointer as the loop goes
		at, ok := u.Elem().Underlying().(*types.Array)
		if !ok {
			ex.unsupported("range over %s", xt)
		}
		pv, ok := ex.eval(s.X).(PtrV)
		if !ok || pv.Obj == nil {
			if s.Value != nil {
				ex.oblige("safety", "nil-deref@"+ex.where(s), BoolC(false), "range over a nil array pointer with a value variable")
				panic(pathEnd{"nil array pointer"})
			}
		}
		n = int(at.Len())
		es := leafCount(at.Elem())
		elemAt = func(i int) Value { return ex.load(pv.Obj, pv.Off+i*es, at.Elem()) }
	case *types.Array:
		l := ex.lvalue(s.X)
		n = int(u.Len())
		es := leafCount(u.Elem())
		snapshot := ex.load(l.Obj, l.Off, xt).(AggV)
		elemAt = func(i int) Value {
			if es == 1 {
				return snapshot.Cells[i]
			}
			return AggV{Typ: u.Elem(), Cells: snapshot.Cells[i*es : (i+1)*es]}
		}
	default:
		ex.unsupported("range over %s", xt)
	}
	info := ex.frame().pkg.Info
	for i := 0; i < n; i++ {
		if s.Key != nil {
			kid := s.Key.(*ast.Ident)
			kv := ex.constOf(bi(int64(i)), machType(types.Typ[types.Int]))
			if s.Tok == token.DEFINE {
				if kid.Name != "_" {
					ex.declare(kid, info.Defs[kid].Type(), kv)
				}
			} else {
				ex.assignTo(kid, kv)
			}
		}
		if s.Value != nil {
			vid := s.Value.(*ast.Ident)
			if s.Tok == token.DEFINE {
				if vid.Name != "_" {
					ex.declare(vid, info.Defs[vid].Type(), elemAt(i))
				}
			} else {
				ex.assignTo(vid, elemAt(i))
			}
		}
		switch ex.execBlock(s.Body.List) {
		case ctlReturn:
			return ctlReturn
		case ctlBreak:
			if ex.mine(myLabel) {
				return ctlNone
			}
			return ctlBreak
		case ctlContinue:
			if !ex.mine(myLabel) {
				return ctlContinue
			}
		}
	}
	return ctlNone
}
