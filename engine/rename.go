package main

import (
	"encoding/json"
	"go/ast"
	"go/types"
	"os"
	"path/filepath"
	"sort"
	"strings"
)

// Contracts name parameters and (in loop invariants) local variables of the function they describe. A rename of a
// parameter or local in /repo is behaviour-preserving but would leave the contract talking about names that no longer
// exist. The names and types the contracts were written against are recorded with the baseline
// (baseline/signatures.json); at load time a contract is adapted when the current function differs from that record
// by a pure renaming: parameters positionally (same count, same types), locals per type in declaration order (same
// number of locals of that type; only names that no longer exist are mapped, to the names that are new).

type funcSig struct {
	Params [][2]string `json:"params"` // name, type
	Locals [][2]string `json:"locals"` // name, type, in declaration order
}

func sigOf(fr *FuncRef) funcSig {
	var s funcSig
	info := fr.Pkg.Info
	q := func(p *types.Package) string { return p.Name() }
	_, idents := paramNames(fr.Decl)
	for _, id := range idents {
		if id == nil {
			s.Params = append(s.Params, [2]string{"_", "?"})
			continue
		}
		t := "?"
		if o := info.Defs[id]; o != nil {
			t = types.TypeString(o.Type(), q)
		}
		s.Params = append(s.Params, [2]string{id.Name, t})
	}
	isParam := map[*ast.Ident]bool{}
	for _, id := range idents {
		isParam[id] = true
	}
	if fr.Decl.Body != nil {
		seen := map[types.Object]bool{}
		ast.Inspect(fr.Decl.Body, func(n ast.Node) bool {
			id, ok := n.(*ast.Ident)
			if !ok || id.Name == "_" {
				return true
			}
			if o, ok := info.Defs[id].(*types.Var); ok && !seen[o] && !o.IsField() {
				seen[o] = true
				s.Locals = append(s.Locals, [2]string{id.Name, types.TypeString(o.Type(), q)})
			}
			return true
		})
	}
	return s
}

// renamesFor compares the recorded signature with the current one.
func renamesFor(old, cur funcSig) map[string]string {
	m := map[string]string{}
	if len(old.Params) == len(cur.Params) {
		same := true
		for i := range old.Params {
			if old.Params[i][1] != cur.Params[i][1] {
				same = false
			}
		}
		if same {
			for i := range old.Params {
				if old.Params[i][0] != cur.Params[i][0] && old.Params[i][0] != "_" && cur.Params[i][0] != "_" {
					m[old.Params[i][0]] = cur.Params[i][0]
				}
			}
		}
	}
	byType := func(ls [][2]string) map[string][]string {
		r := map[string][]string{}
		for _, l := range ls {
			r[l[1]] = append(r[l[1]], l[0])
		}
		return r
	}
	ot, ct := byType(old.Locals), byType(cur.Locals)
	for t, onames := range ot {
		cnames := ct[t]
		if len(onames) != len(cnames) {
			continue
		}
		cset, oset := map[string]bool{}, map[string]bool{}
		for _, n := range cnames {
			cset[n] = true
		}
		for _, n := range onames {
			oset[n] = true
		}
		var gone, fresh []string
		for _, n := range onames {
			if !cset[n] {
				gone = append(gone, n)
			}
		}
		for _, n := range cnames {
			if !oset[n] {
				fresh = append(fresh, n)
			}
		}
		if len(gone) == len(fresh) {
			for i := range gone {
				if _, clash := m[gone[i]]; !clash {
					m[gone[i]] = fresh[i]
				}
			}
		}
	}
	return m
}

func renameExpr(e ast.Expr, m map[string]string) {
	if e == nil {
		return
	}
	var walk func(n ast.Node)
	walk = func(n ast.Node) {
		switch x := n.(type) {
		case nil:
		case *ast.Ident:
			if nn, ok := m[x.Name]; ok {
				x.Name = nn
			}
		case *ast.SelectorExpr:
			walk(x.X)
		case *ast.CallExpr:
			if _, isId := x.Fun.(*ast.Ident); !isId {
				walk(x.Fun)
			}
			for _, a := range x.Args {
				walk(a)
			}
		case *ast.ParenExpr:
			walk(x.X)
		case *ast.BinaryExpr:
			walk(x.X)
			walk(x.Y)
		case *ast.UnaryExpr:
			walk(x.X)
		case *ast.StarExpr:
			walk(x.X)
		case *ast.IndexExpr:
			walk(x.X)
			walk(x.Index)
		case *ast.SliceExpr:
			walk(x.X)
			walk(x.Low)
			walk(x.High)
			walk(x.Max)
		case *ast.CompositeLit:
			for _, el := range x.Elts {
				walk(el)
			}
		case *ast.KeyValueExpr:
			walk(x.Value)
		}
	}
	walk(e)
}

func renameContract(fc *FuncContract, m map[string]string) {
	if len(m) == 0 {
		return
	}
	cl := func(cs []*Clause) {
		for _, c := range cs {
			renameExpr(c.Expr, m)
			for _, b := range c.By {
				renameExpr(b, m)
			}
		}
	}
	cl(fc.Requires)
	cl(fc.Ensures)
	cl(fc.Derives)
	cl(fc.PreLemmas)
	if fc.Panics != nil {
		cl([]*Clause{fc.Panics})
	}
	for _, e := range fc.Modifies {
		renameExpr(e, m)
	}
	for _, e := range fc.Uses {
		renameExpr(e, m)
	}
	renameExpr(fc.SchedExcept, m)
	for _, l := range fc.Loops {
		cl(l.Invariants)
		for _, e := range l.Modifies {
			renameExpr(e, m)
		}
		for _, e := range l.Uses {
			renameExpr(e, m)
		}
	}
	for i, r := range fc.Returns {
		if nn, ok := m[r]; ok {
			fc.Returns[i] = nn
		}
	}
	ren := func(mm map[string]bool) {
		for k, v := range mm {
			if nn, ok := m[k]; ok {
				delete(mm, k)
				mm[nn] = v
			}
		}
	}
	ren(fc.Nilable)
	for k, v := range fc.Lens {
		if nn, ok := m[k]; ok {
			delete(fc.Lens, k)
			fc.Lens[nn] = v
		}
	}
	for _, g := range fc.Alias {
		for i, n := range g {
			if nn, ok := m[n]; ok {
				g[i] = nn
			}
		}
	}
}

// adaptContractsToRenames applies the recorded-signature comparison to every contracted function of /repo.
func adaptContractsToRenames(prog *Program, specs *Specs) []string {
	var sigs map[string]funcSig
	if loadJSON(filepath.Join(verifRoot, "baseline", "signatures.json"), &sigs) != nil {
		return nil
	}
	var notes []string
	var names []string
	for n := range specs.Funcs {
		names = append(names, n)
	}
	sort.Strings(names)
	for _, n := range names {
		fr := prog.Lookup(n)
		old, ok := sigs[n]
		if fr == nil || !ok {
			continue
		}
		if strings.HasPrefix(prog.Fset.Position(fr.Decl.Pos()).Filename, clientsDir) {
			continue
		}
		m := renamesFor(old, sigOf(fr))
		if len(m) > 0 {
			renameContract(specs.Funcs[n], m)
			var ps []string
			for a, b := range m {
				ps = append(ps, a+"->"+b)
			}
			sort.Strings(ps)
			notes = append(notes, n+": "+strings.Join(ps, ", "))
			if renameBack == nil {
				renameBack = map[string]map[string]string{}
			}
			renameBack[n] = map[string]string{}
			for a, b := range m {
				renameBack[n][b] = a
			}
		}
	}
	return notes
}

func writeSignatures(v *Verifier) {
	sigs := map[string]funcSig{}
	for n := range v.specs.Funcs {
		if fr := v.prog.Lookup(n); fr != nil && !strings.HasPrefix(v.prog.Fset.Position(fr.Decl.Pos()).Filename, clientsDir) {
			sigs[n] = sigOf(fr)
		}
	}
	writeJSON(filepath.Join(verifRoot, "baseline", "signatures.json"), sigs)
}

func writeJSON(path string, v interface{}) {
	b, _ := json.MarshalIndent(v, "", " ")
	os.MkdirAll(filepath.Dir(path), 0o755)
	os.WriteFile(path, b, 0o644)
}

// renameBack: per function, current name -> name the baseline was recorded with.
var renameBack map[string]map[string]string

// baselineName translates the name of an obligation generated for a function whose contract was adapted to renamed
// parameters back to the name it has in the baseline (only frame obligations carry a parameter name).
func baselineName(name string) string {
	i := strings.Index(name, "#frame:")
	if i < 0 || renameBack == nil {
		return name
	}
	m := renameBack[name[:i]]
	if m == nil {
		return name
	}
	obj := name[i+len("#frame:"):]
	j := 0
	for j < len(obj) && (obj[j] == '_' || obj[j] >= '0' && obj[j] <= '9' || obj[j] >= 'a' && obj[j] <= 'z' || obj[j] >= 'A' && obj[j] <= 'Z') {
		j++
	}
	if old, ok := m[obj[:j]]; ok {
		return name[:i] + "#frame:" + old + obj[j:]
	}
	return name
}
