package main

import (
	"fmt"
	"go/ast"
	"go/types"
)

// execLoopCut verifies a loop against its invariants (cut-point semantics, all iterations).
func (ex *Exec) execLoopCut(s *ast.ForStmt, lc *LoopContract, ord int, myLabel string) ctl {
	fm := ex.frame()
	mk := func(assume bool) *SpecCtx {
		return &SpecCtx{ex: ex, vars: ex.specVars, old: ex.entry, pkg: ex.fn.Pkg, locals: fm, assume: assume}
	}
	// 1. invariants hold on entry
	ctx := mk(false)
	for _, iv := range lc.Invariants {
		o := ex.oblige("loop", fmt.Sprintf("%d:init:%s", ord, iv.Name), ctx.term(iv.Expr), iv.Text)
		o.Props = iv.Props
		for _, u := range lc.Uses {
			o.Hyps = append(o.Hyps, ctx.tryTerm(u))
		}
	}
	if ex.trace != nil {
		ex.segs = append(ex.segs, schedSeg{fmt.Sprintf("entry-to-loop%d", ord), ex.trace, ex.hyps(), ex.pathLabel()})
		ex.trace = Var(fmt.Sprintf("tr@loop%d", ord), STr)
	}
	// 2. havoc the loop's frame
	for _, m := range lc.Modifies {
		if id, ok := m.(*ast.Ident); ok {
			if g, isGhost := ex.ghost[id.Name]; isGhost {
				ex.ghost[id.Name] = Fresh(id.Name, g.sort)
				continue
			}
			o, ok := fm.byName[id.Name]
			if !ok {
				ex.unsupported("loop modifies unknown local %s", id.Name)
			}
			t := fm.types[id.Name]
			ex.havocPlace(PtrV{Obj: o, Typ: t}, id.Name)
			continue
		}
		var v Value
		if se, ok := m.(*ast.StarExpr); ok {
			v = ctx.eval(se.X)
		} else {
			v = ctx.eval(m)
		}
		switch p := v.(type) {
		case PtrV:
			if p.Obj == nil {
				ex.unsupported("loop modifies nil place")
			}
			ex.havocPlace(p, p.Obj.Name+".")
		case SliceV:
			for i := 0; i < p.Len; i++ {
				ex.havocLeaf(p.Obj, p.Off+i, p.Elem, p.Obj.Name+".b")
			}
		default:
			ex.unsupported("loop modifies %s: unsupported", exprStr(m))
		}
	}
	// 3. assume the invariants for an arbitrary iteration
	actx := mk(true)
	for _, iv := range lc.Invariants {
		ex.assume(actx.term(iv.Expr), fmt.Sprintf("loop%d:inv:%s", ord, iv.Name))
	}
	for _, u := range lc.Uses {
		ex.st.addFact(actx.tryTerm(u), "loop uses")
	}
	// 4. one arbitrary iteration, or exit
	var cond *Term = BoolC(true)
	if s.Cond != nil {
		cond = ex.evalTerm(s.Cond)
	}
	if !ex.decide(cond, ex.where(s)) {
		return ctlNone
	}
	switch ex.execBlock(s.Body.List) {
	case ctlReturn:
		return ctlReturn
	case ctlBreak:
		if ex.mine(myLabel) {
			return ctlNone
		}
		return ctlBreak
	case ctlContinue:
		if !ex.mine(myLabel) {
			return ctlContinue
		}
	}
	if s.Post != nil {
		ex.execStmt(s.Post)
	}
	if ex.trace != nil {
		ex.segs = append(ex.segs, schedSeg{fmt.Sprintf("loop%d-body", ord), ex.trace, ex.hyps(), ex.pathLabel()})
	}
	pctx := mk(false)
	var endHints []*Term
	for _, u := range lc.Uses {
		endHints = append(endHints, pctx.tryTerm(u)) // the same hints, instantiated on the state after the body
	}
	for _, iv := range lc.Invariants {
		o := ex.oblige("loop", fmt.Sprintf("%d:preserve:%s", ord, iv.Name), pctx.term(iv.Expr), iv.Text)
		o.Props = iv.Props
		o.Hyps = append(o.Hyps, endHints...)
	}
	panic(pathEnd{"loop back-edge"})
}

var _ types.Type
