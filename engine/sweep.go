package main

import (
	"fmt"
	"os"
	"sort"
	"strings"
)

type sweepResult struct {
	Func     string `json:"function"`
	Cases    int    `json:"cases"`
	Runs     int    `json:"runs_with_precondition_true"`
	Clauses  int    `json:"clause_evaluations_true"`
	Residual int    `json:"clause_evaluations_not_constant"`
	False    int    `json:"clause_evaluations_false"`
	Witness  string `json:"witness,omitempty"`
	Skipped  string `json:"skipped,omitempty"`
}

// sweepFunc: bounded conformance check of one function: the real code is run on boundary-biased vectors and every
// contract clause is evaluated on the observed values. Labelled bounded; a false clause on the delivered tree
// means that the contract, the VC generator or the concrete evaluator is wrong (or the code is).
func (v *Verifier) sweepFunc(name string, n int, seed int64, maxCases int) sweepResult {
	res := sweepResult{Func: name}
	fr := v.prog.Lookup(name)
	fc := v.specs.Funcs[name]
	if fr == nil || fc == nil {
		res.Skipped = "no contract"
		return res
	}
	defer func() {
		if r := recover(); r != nil {
			res.Skipped = fmt.Sprint("engine: ", r)
		}
	}()
	cases := v.enumerateCases(fr, fc)
	for ci, cs := range cases {
		if ci >= maxCases {
			break
		}
		h := v.buildHarness(fr, fc, cs)
		if !h.ok {
			res.Skipped = h.why
			continue
		}
		ex := v.newExec(fr, fc)
		ex.resetPath()
		func() {
			defer func() { recover() }()
			ex.setupParams(cs)
		}()
		var keys []string
		for k := range ex.inputs {
			keys = append(keys, k)
		}
		for _, p := range h.params {
			if p.kind == "absslice" {
				keys = append(keys, "bytes("+p.name+")")
			}
			if p.kind == "string" {
				keys = append(keys, "string("+p.name+")")
			}
		}
		if strings.Contains(h.src, "rand.Reader = rd") {
			keys = append(keys, "stream")
		}
		sort.Strings(keys)
		vecs := v.genVectors(nil, keys, n, seed+int64(ci))
		outs, _, err := v.runHarness(h, vecs)
		if err != nil {
			res.Skipped = "harness: " + truncate(err.Error(), 200)
			continue
		}
		res.Cases++
		for i, out := range outs {
			pre, verdicts, err := v.evalOn(fr, fc, cs, vecs[i], out)
			if err != nil || !pre {
				continue
			}
			res.Runs++
			for cl, vd := range verdicts {
				switch {
				case vd == "true":
					res.Clauses++
				case vd == "false" || cl == "panic":
					res.False++
					if res.Witness == "" {
						res.Witness = fmt.Sprintf("case %s clause %s inputs %v observed %v", cs.label, cl, vecs[i], out)
					}
				default:
					res.Residual++
					if os.Getenv("VERIF_DEBUG") != "" && res.Residual == 1 {
						fmt.Println("residual:", cl, truncate(vd, 1500))
					}
				}
			}
		}
	}
	return res
}

func cmdSweep(args []string) int {
	v, err := load()
	if err != nil {
		fmt.Println("ENGINE-ERROR:", err)
		return 2
	}
	var names []string
	for _, a := range args {
		if strings.HasPrefix(a, "C") && len(a) == 3 {
			for n, fc := range v.specs.Funcs {
				if fc.hasProp(a) {
					names = append(names, n)
				}
			}
		} else if a == "all" {
			for n := range v.specs.Funcs {
				names = append(names, n)
			}
		} else {
			names = append(names, a)
		}
	}
	sort.Strings(names)
	rc := 0
	for _, n := range names {
		r := v.sweepFunc(n, 200, 7, 3)
		mark := "ok  "
		if r.False > 0 {
			mark = "FALSE"
			rc = 1
		}
		fmt.Printf("  %s %-48s cases=%d runs=%d true=%d residual=%d false=%d %s %s\n", mark, n, r.Cases, r.Runs, r.Clauses, r.Residual, r.False, r.Skipped, truncate(r.Witness, 600))
	}
	return rc
}

var _ = os.Getenv

// stdModelConformance proves every verifStd* program of clients/stdmodels.go from the engine's models and sweeps the
// real standard-library function behind it on boundary-biased vectors (bounded).
func (v *Verifier) stdModelConformance(n int, seed int64) (map[string]interface{}, []string) {
	var names []string
	for name := range v.specs.Funcs {
		if strings.HasPrefix(name, "secp256k1.verifStd") || strings.HasPrefix(name, "secp256k1.verifGo") {
			names = append(names, name)
		}
	}
	sort.Strings(names)
	var bad []string
	proved, runs := 0, 0
	for _, name := range names {
		fr, fc := v.prog.Lookup(name), v.specs.Funcs[name]
		if fr == nil {
			bad = append(bad, name+": not found")
			continue
		}
		res, err := v.CheckFunc(fr, fc, 20, false)
		if err != nil {
			bad = append(bad, name+": "+err.Error())
			continue
		}
		ok := true
		for _, r := range res {
			if r.Status != "discharged" {
				ok = false
				bad = append(bad, name+": the model does not imply "+r.Name)
			}
		}
		if ok {
			proved++
		}
		sw := v.sweepFunc(name, n, seed, 3)
		runs += sw.Runs
		if sw.False > 0 {
			bad = append(bad, name+": the real function contradicts the statement: "+truncate(sw.Witness, 400))
		}
		if sw.Runs == 0 {
			bad = append(bad, name+": no run of the real function was evaluated ("+sw.Skipped+")")
		}
	}
	return map[string]interface{}{"label": "bounded (not counted in obligations/discharged)",
		"what":     "each trusted standard-library model (clients/stdmodels.go) and each Go construct beyond straight-line code (clients/constructs.go) is stated as an exact contract on a small wrapper; the statement is proved from the engine's model/semantics and evaluated on runs of the compiled function",
		"wrappers": len(names), "proved_from_model": proved, "real_runs": runs, "problems": bad}, bad
}
