package main

import (
	"fmt"
	"go/ast"
	"go/types"
	"math/big"
	"os/exec"
	"strings"
)

// ---------- abstract byte strings (sort Str) ----------
//
// Str terms:  var | strlit(<hex>) | cat(parts...) | H(s) | sub(s, off, n) | strxor(a, b) | bytes<n>(cells...)
// Byte access: at(s, i) : Int.   Length: slen(s) : Int.

func StrLit(b []byte) *Term {
	return App("strlit:"+fmt.Sprintf("%x", b), SStr)
}

var strLens = map[*Term]int{} // statically known lengths

func knownLen(s *Term) (int, bool) {
	if n, ok := strLens[s]; ok {
		return n, true
	}
	if s.op == "app" {
		switch {
		case strings.HasPrefix(s.name, "strlit:"):
			return (len(s.name) - 7) / 2, true
		case s.name == "H":
			return 32, true
		case s.name == "sub":
			return int(s.args[2].val.Int64()), true
		case s.name == "strxor":
			return knownLen(s.args[0])
		case strings.HasPrefix(s.name, "bytes"):
			return len(s.args), true
		case isCat(s):
			t := 0
			for _, a := range s.args {
				n, ok := knownLen(a)
				if !ok {
					return 0, false
				}
				t += n
			}
			return t, true
		}
	}
	return 0, false
}

func SLen(s *Term) *Term {
	if n, ok := knownLen(s); ok {
		return IntI(int64(n))
	}
	if isCat(s) {
		var ps []*Term
		for _, a := range s.args {
			ps = append(ps, SLen(a))
		}
		return Add(ps...)
	}
	return App("slen", SInt, s)
}

// liftIte distributes a Str-valued if-then-else argument to the top, so that concatenation structure stays flat.
func liftIte(args []*Term, build func(args []*Term) *Term) (*Term, bool) {
	for i, a := range args {
		if a.op == "ite" && a.sort == SStr {
			x := append([]*Term{}, args...)
			y := append([]*Term{}, args...)
			x[i], y[i] = a.args[1], a.args[2]
			return Ite(a.args[0], build(x), build(y)), true
		}
	}
	return nil, false
}

func isLit(t *Term) bool { return t.op == "app" && strings.HasPrefix(t.name, "strlit:") }

func Cat(parts ...*Term) *Term {
	if t, ok := liftIte(parts, func(a []*Term) *Term { return Cat(a...) }); ok {
		return t
	}
	var flat []*Term
	for _, p := range parts {
		if isCat(p) {
			flat = append(flat, p.args...)
		} else {
			flat = append(flat, p)
		}
	}
	// merge adjacent literals, drop empty parts
	var out []*Term
	for _, p := range flat {
		if isLit(p) {
			if len(p.name) == 7 {
				continue
			}
			if n := len(out); n > 0 && isLit(out[n-1]) {
				out[n-1] = App(out[n-1].name+p.name[7:], SStr)
				continue
			}
		}
		out = append(out, p)
	}
	if len(out) == 0 {
		return StrLit(nil)
	}
	if len(out) == 1 {
		return out[0]
	}
	return App(fmt.Sprintf("cat%d", len(out)), SStr, out...)
}

func HashOf(s *Term) *Term {
	if t, ok := liftIte([]*Term{s}, func(a []*Term) *Term { return HashOf(a[0]) }); ok {
		return t
	}
	return App("H", SStr, s)
}

func StrXor(a, b *Term) *Term {
	if t, ok := liftIte([]*Term{a, b}, func(x []*Term) *Term { return StrXor(x[0], x[1]) }); ok {
		return t
	}
	if isLit(a) && isLit(b) {
		x, y := litBytes(a), litBytes(b)
		if len(x) == len(y) {
			z := make([]byte, len(x))
			for i := range x {
				z[i] = x[i] ^ y[i]
			}
			return StrLit(z)
		}
	}
	if a.id > b.id {
		a, b = b, a
	}
	return App("strxor", SStr, a, b)
}

func SubStr(s *Term, off, n int) *Term {
	if t, ok := liftIte([]*Term{s}, func(x []*Term) *Term { return SubStr(x[0], off, n) }); ok {
		return t
	}
	if l, ok := knownLen(s); ok && off == 0 && n == l {
		return s
	}
	return App("sub", SStr, s, IntI(int64(off)), IntI(int64(n)))
}

func At(s *Term, i int) *Term {
	if s.op == "ite" {
		return Ite(s.args[0], At(s.args[1], i), At(s.args[2], i))
	}
	if s.op == "app" && s.name == "sub" {
		return At(s.args[0], int(s.args[1].val.Int64())+i)
	}
	if s.op == "app" && strings.HasPrefix(s.name, "strlit:") {
		var b byte
		fmt.Sscanf(s.name[7+2*i:9+2*i], "%02x", &b)
		return IntI(int64(b))
	}
	if s.op == "app" && strings.HasPrefix(s.name, "bytes") {
		return s.args[i]
	}
	if s.op == "app" && s.name == "strxor" {
		return Xor8(At(s.args[0], i), At(s.args[1], i))
	}
	if isCat(s) {
		for _, a := range s.args {
			n, ok := knownLen(a)
			if !ok {
				break
			}
			if i < n {
				return At(a, i)
			}
			i -= n
		}
	}
	return App("at", SInt, s, IntI(int64(i)))
}

func Xor8(a, b *Term) *Term {
	if a.IsConst() && b.IsConst() {
		return IntC(new(big.Int).Xor(a.val, b.val))
	}
	if a == b {
		return IntI(0)
	}
	if a.IsConst() && a.val.Sign() == 0 {
		return b
	}
	if b.IsConst() && b.val.Sign() == 0 {
		return a
	}
	if a.id > b.id {
		a, b = b, a
	}
	// x ^ (x ^ y) == y
	for _, pr := range [][2]*Term{{a, b}, {b, a}} {
		if pr[1].op == "app" && pr[1].name == "xor8" {
			if pr[1].args[0] == pr[0] {
				return pr[1].args[1]
			}
			if pr[1].args[1] == pr[0] {
				return pr[1].args[0]
			}
		}
	}
	return App("xor8", SInt, a, b)
}

// strOfCells recognises a run of byte cells as a Str term (string extensionality: a string is
// determined by its length and bytes).
func strOfCells(cells []*Term) *Term {
	var parts []*Term
	i := 0
	for i < len(cells) {
		c := cells[i]
		// run of at(S, k), at(S, k+1), ...
		if base, k, ok := atParts(c); ok {
			j := i + 1
			for j < len(cells) {
				b2, k2, ok2 := atParts(cells[j])
				if !ok2 || b2 != base || k2 != k+(j-i) {
					break
				}
				j++
			}
			parts = append(parts, SubStr(base, k, j-i))
			i = j
			continue
		}
		// run of xor8(at(S,k), at(T,k))
		if c.op == "app" && c.name == "xor8" {
			s1, k1, ok1 := atParts(c.args[0])
			s2, k2, ok2 := atParts(c.args[1])
			if ok1 && ok2 {
				j := i + 1
				for j < len(cells) {
					d := cells[j]
					if d.op != "app" || d.name != "xor8" {
						break
					}
					t1, l1, o1 := atParts(d.args[0])
					t2, l2, o2 := atParts(d.args[1])
					if !o1 || !o2 {
						break
					}
					if !(t1 == s1 && t2 == s2 && l1 == k1+(j-i) && l2 == k2+(j-i)) && !(t1 == s2 && t2 == s1 && l1 == k2+(j-i) && l2 == k1+(j-i)) {
						break
					}
					j++
				}
				parts = append(parts, StrXor(SubStr(s1, k1, j-i), SubStr(s2, k2, j-i)))
				i = j
				continue
			}
		}
		// run of constants
		if c.IsConst() {
			var bs []byte
			j := i
			for j < len(cells) && cells[j].IsConst() {
				bs = append(bs, byte(cells[j].val.Int64()))
				j++
			}
			parts = append(parts, StrLit(bs))
			i = j
			continue
		}
		parts = append(parts, App("bytes1", SStr, c))
		i++
	}
	return Cat(parts...)
}

func atParts(c *Term) (*Term, int, bool) {
	if c.op == "app" && c.name == "at" && c.args[1].IsConst() {
		return c.args[0], int(c.args[1].val.Int64()), true
	}
	return nil, 0, false
}

func (ex *Exec) strOf(v Value) *Term {
	switch s := v.(type) {
	case SliceV:
		if s.Abs != nil {
			return s.Abs.Str
		}
		if s.SymLen != nil {
			ex.unsupported("content of a slice of the 'other length' class")
		}
		cells := make([]*Term, s.Len)
		for i := range cells {
			cells[i] = ex.resolve(s.Obj.Cells[s.Off+i]).(*Term)
		}
		return strOfCells(cells)
	}
	ex.unsupported("strOf %T", v)
	return nil
}

func (ex *Exec) resolve(v Value) Value {
	if t, ok := v.(*Term); ok && t.op == "var" {
		if b, ok := ex.st.bind[t]; ok {
			return b
		}
	}
	return v
}

// cellsOfStr materialises n byte cells of a Str term.
func (ex *Exec) cellsOfStr(s *Term, n int) []Value {
	out := make([]Value, n)
	for i := range out {
		b := At(s, i)
		if b.op == "app" {
			ex.noteByteRange(b)
		}
		out[i] = b
	}
	return out
}

func (ex *Exec) noteByteRange(b *Term) {
	ex.st.addFact(And(Le(IntI(0), b), Lt(b, IntI(256))), "byte range")
}

// ----- abstract slices in the executor -----

func (ex *Exec) absParamSlice(name string, st *types.Slice) Value {
	s := Var("str("+name+")", SStr)
	ln := App("slen", SInt, s)
	ex.st.addFact(And(Le(IntI(0), ln), Lt(ln, IntC(pow2(62)))), "slice length range")
	o := ex.st.newObj(name, types.NewArray(st.Elem(), 0))
	o.Pre, o.Param = true, true
	sc := Fresh(name+".sparecap", SInt)
	ex.st.ranges[sc] = pow2(40)
	o.SpareCap = sc
	ex.inputs["sparecap("+name+")"] = sc
	return SliceV{Obj: o, Elem: st.Elem(), Abs: &AbsBytes{Str: s, Len: ln, Obj: o}}
}

func (ex *Exec) freshAbsSlice(name string, st *types.Slice) Value {
	s := Fresh("str("+name+")", SStr)
	ln := App("slen", SInt, s)
	ex.st.addFact(Le(IntI(0), ln), "slice length range")
	o := ex.st.newObj(name, types.NewArray(st.Elem(), 0))
	return SliceV{Obj: o, Elem: st.Elem(), Abs: &AbsBytes{Str: s, Len: ln, Obj: o}}
}

func (ex *Exec) makeAbs(st *types.Slice, ln, cp *Term, e ast.Node) Value {
	if !(ln.IsConst() && ln.val.Sign() == 0) {
		ex.unsupported("make with symbolic non-zero length at %s", ex.where(e))
	}
	o := ex.st.newObj("make@"+ex.where(e), types.NewArray(st.Elem(), 0))
	return SliceV{Obj: o, Elem: st.Elem(), Abs: &AbsBytes{Str: StrLit(nil), Len: IntI(0), Obj: o}}
}

func (ex *Exec) absLen(s SliceV) *Term {
	if s.Abs != nil {
		return s.Abs.Len
	}
	return IntI(int64(s.Len))
}

func (ex *Exec) appendAbs(s, src SliceV, e ast.Node) Value {
	if s.Obj != nil && s.Obj.Pre {
		// appending to caller-owned memory: in place whenever there is spare capacity
		if s.Obj.SpareCap == nil || ex.decide(Le(ex.absLen(src), s.Obj.SpareCap), ex.where(e)) {
			ex.oblige("frame", s.Obj.Name, BoolC(false), "append writes into the spare capacity of a caller-owned slice").Props = ex.fc.Props
		}
	}
	var base *Term
	if s.Abs != nil {
		base = s.Abs.Str
	} else {
		base = ex.strOf(s)
	}
	str := Cat(base, ex.strOf(src))
	o := s.Obj
	if o == nil || o.Pre {
		o = ex.st.newObj("append@"+ex.where(e), types.NewArray(s.Elem, 0))
	}
	return SliceV{Obj: o, Elem: s.Elem, Abs: &AbsBytes{Str: str, Len: Add(ex.absLen(s), ex.absLen(src)), Obj: o}}
}

func (ex *Exec) appendAbsCells(s SliceV, add []Value, e ast.Node) Value {
	cells := make([]*Term, len(add))
	for i, a := range add {
		cells[i] = a.(*Term)
	}
	if s.Obj != nil && s.Obj.Pre {
		room := s.Obj.SpareCap
		if s.prefixOf != nil && room != nil {
			room = Add(room, s.prefixOf.Len) // the bytes of the original slice are capacity of its empty prefix
		}
		if room == nil || ex.decide(Le(IntI(int64(len(add))), room), ex.where(e)) {
			ex.oblige("frame", s.Obj.Name, BoolC(false), "append writes into memory of a caller-owned slice").Props = ex.fc.Props
		}
	}
	str := Cat(s.Abs.Str, strOfCells(cells))
	o := s.Obj
	if o == nil || o.Pre {
		o = ex.st.newObj("append@"+ex.where(e), types.NewArray(s.Elem, 0))
	}
	return SliceV{Obj: o, Elem: s.Elem, Abs: &AbsBytes{Str: str, Len: Add(s.Abs.Len, IntI(int64(len(add)))), Obj: o}}
}

func (ex *Exec) sliceAbs(s SliceV, e *ast.SliceExpr) Value {
	// only s[:0] / s[0:0] (an empty prefix that keeps the backing store and its capacity) is modelled
	lo := ex.constInt(e.Low, 0)
	if e.High == nil || lo != 0 {
		ex.unsupported("slicing abstract slice at %s", ex.where(e))
	}
	hi := ex.evalTerm(e.High)
	if !hi.IsConst() || hi.val.Sign() != 0 {
		ex.unsupported("slicing abstract slice at %s", ex.where(e))
	}
	return SliceV{Obj: s.Obj, Elem: s.Elem, Abs: &AbsBytes{Str: StrLit(nil), Len: IntI(0), Obj: s.Obj}, prefixOf: s.Abs}
}
func (ex *Exec) absToArray(s SliceV, n int, e ast.Node) Value {
	ex.unsupported("abstract slice to array at %s", ex.where(e))
	return nil
}
func (ex *Exec) copyAbs(d, s SliceV, e ast.Node) Value {
	if d.Obj != nil && d.Obj.Pre {
		ex.oblige("frame", d.Obj.Name, BoolC(false), "copy into a caller-owned slice").Props = ex.fc.Props
	}
	ex.unsupported("copy with abstract slice at %s", ex.where(e))
	return nil
}

// ----- hash model -----

type hashState struct {
	chunks []*Term // the arguments of the Write calls since the last Reset, in order (not flattened)
	id     int
}

// CatChunks concatenates without flattening the structure of the chunks.
func CatChunks(parts []*Term) *Term {
	if len(parts) == 0 {
		return StrLit(nil)
	}
	if len(parts) == 1 {
		return parts[0]
	}
	return App(fmt.Sprintf("cat%d", len(parts)), SStr, parts...)
}

var importsSHA256 = map[string]string{}

// sha256Linked reports whether crypto/sha256 is in the import closure of the module's root package in every
// build configuration: some file without build constraints imports it (directly), or the default closure of
// the remaining imports contains it.
func (ex *Exec) sha256Linked() (bool, string) {
	root := ex.prog.Root
	key := root + "|" + curCfg.Name
	if r, ok := importsSHA256[key]; ok {
		return r == "", r
	}
	why := ""
	direct := false
	for _, p := range ex.prog.Pkgs {
		for _, f := range p.Files {
			fn := ex.prog.Fset.Position(f.Package).Filename
			if strings.HasPrefix(fn, clientsDir) || !alwaysCompiled(fn) {
				continue
			}
			for _, im := range f.Imports {
				if strings.Trim(im.Path.Value, `"`) == "crypto/sha256" {
					direct = true
				}
			}
		}
	}
	if !direct {
		// not imported by a file that is compiled in every configuration: ask the go command for the import
		// closure under the configuration being analysed (and, for the default one, under -tags purego as well)
		cfgs := []buildConfig{curCfg}
		if curCfg.Name == defaultCfg.Name {
			cfgs = append(cfgs, altConfigs[0])
		}
		for _, cfg := range cfgs {
			args := []string{"list", "-deps"}
			if len(cfg.Tags) > 0 {
				args = append(args, "-tags", strings.Join(cfg.Tags, ","))
			}
			args = append(args, "-f", "{{.ImportPath}}", ".")
			cmd := exec.Command("go", args...)
			cmd.Dir = root
			cmd.Env = append(cmd.Environ(), "GOFLAGS=-mod=mod", "GOPROXY=off", "GOSUMDB=off", "GOTOOLCHAIN=local", "GOOS="+cfg.GOOS, "GOARCH="+cfg.GOARCH, "CGO_ENABLED=0")
			out, err := cmd.Output()
			found := false
			if err == nil {
				for _, l := range strings.Split(string(out), "\n") {
					if strings.TrimSpace(l) == "crypto/sha256" {
						found = true
					}
				}
			}
			if !found {
				why = "crypto/sha256 is not in the import closure of the package's non-test files under " + cfg.Name
				break
			}
		}
	}
	importsSHA256[key] = why
	return why == "", why
}

func (ex *Exec) callHash(full string, args []Value, e *ast.CallExpr) (Value, bool) {
	switch full {
	case "(crypto.Hash).New":
		h := args[0].(*Term)
		if !h.IsConst() || h.val.Int64() != 5 {
			ex.unsupported("crypto.Hash.New is only modelled for crypto.SHA256")
		}
		ok, why := ex.sha256Linked()
		ex.oblige("call", "crypto.Hash.New#pre:registered@"+ex.where(e), BoolC(ok), "crypto.SHA256 must be registered in every importing program: "+why).Props = []string{"C17"}
		ex.hashCount++
		return OpaqueV{Kind: "hash", Data: &hashState{id: ex.hashCount}}, true
	case "crypto/sha256.New":
		// the implementation is linked by name: no registry lookup, nothing to require
		ex.hashCount++
		return OpaqueV{Kind: "hash", Data: &hashState{id: ex.hashCount}}, true
	case "crypto/sha256.Sum256":
		d := HashOf(ex.strOf(args[0]))
		at := types.NewArray(types.Typ[types.Uint8], 32)
		return AggV{Typ: at, Cells: ex.cellsOfStr(d, 32)}, true
	case "(crypto.Hash).Size", "(hash.Hash).Size":
		return ex.constOf(bi(32), machType(types.Typ[types.Int])), true
	case "(hash.Hash).BlockSize":
		return ex.constOf(bi(64), machType(types.Typ[types.Int])), true
	case "(hash.Hash).Reset":
		args[0].(OpaqueV).Data.(*hashState).chunks = nil
		return nil, true
	case "(io.Writer).Write":
		hs, ok := args[0].(OpaqueV)
		if !ok || hs.Kind != "hash" {
			return nil, false
		}
		st := hs.Data.(*hashState)
		st.chunks = append(st.chunks, ex.strOf(args[1]))
		return TupleV{ex.absLenValue(args[1]), IntI(0)}, true
	case "(hash.Hash).Sum":
		st := args[0].(OpaqueV).Data.(*hashState)
		d := HashOf(Cat(st.chunks...))
		if in, ok := args[1].(SliceV); ok && (in.Obj != nil || in.Abs != nil) {
			// Sum(b) appends the digest to b
			if in.Abs == nil {
				return ex.appendConcrete(in, ex.cellsOfStr(d, 32), in.Elem, e), true
			}
			return ex.appendAbsCells(in, ex.cellsOfStr(d, 32), e), true
		}
		o := ex.st.newObj("digest", types.NewArray(types.Typ[types.Uint8], 32))
		o.Cells = ex.cellsOfStr(d, 32)
		return SliceV{Obj: o, Len: 32, Cap: 32, Elem: types.Typ[types.Uint8]}, true
	case "io.WriteString":
		hs, ok := args[0].(OpaqueV)
		str, ok2 := args[1].(StrV)
		if !ok || hs.Kind != "hash" || !ok2 {
			return nil, false
		}
		st := hs.Data.(*hashState)
		st.chunks = append(st.chunks, StrLit([]byte(str.S)))
		return TupleV{ex.constOf(bi(int64(len(str.S))), machType(types.Typ[types.Int])), IntI(0)}, true
	case "math.Ceil":
		r := args[0].(OpaqueV).Data.(*big.Rat)
		q := new(big.Int).Quo(r.Num(), r.Denom())
		if new(big.Rat).SetInt(q).Cmp(r) < 0 {
			q.Add(q, bi(1))
		}
		return OpaqueV{Kind: "float", Data: new(big.Rat).SetInt(q)}, true
	}
	return nil, false
}

func (ex *Exec) absLenValue(v Value) *Term {
	if s, ok := v.(SliceV); ok {
		return ex.absLen(s)
	}
	return IntI(0)
}

func isCat(t *Term) bool {
	return t.op == "app" && strings.HasPrefix(t.name, "cat") && len(t.name) > 3 && t.name[3] >= '0' && t.name[3] <= '9'
}
