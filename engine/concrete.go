package main

import (
	"crypto/sha256"
	"encoding/hex"
	"fmt"
	"math/big"
	"strings"
)

// Concrete evaluation of the specification vocabulary on constants. Used when a contract clause is evaluated on
// the observed inputs/outputs of a run of the real code (replay, directed search). Not used in proofs.

var concreteOn bool

// rndStream: the scripted entropy stream of the run being evaluated (Random)
var rndStream []byte

func gInf() *Term { return App("gconst:inf", SG) }
func gPt(x, y *big.Int) *Term {
	return App(fmt.Sprintf("gconst:%x,%x", x, y), SG)
}
func isGConst(t *Term) bool { return t.op == "app" && strings.HasPrefix(t.name, "gconst:") }
func gCoords(t *Term) (x, y *big.Int, inf bool) {
	if t.name == "gconst:inf" {
		return nil, nil, true
	}
	p := strings.Split(t.name[7:], ",")
	x, _ = new(big.Int).SetString(p[0], 16)
	y, _ = new(big.Int).SetString(p[1], 16)
	return x, y, false
}

func fmod(v *big.Int) *big.Int { return v.Mod(v, primeP) }

func onCurve(x, y *big.Int) bool {
	l := new(big.Int).Mul(y, y)
	r := new(big.Int).Mul(x, x)
	r.Mul(r, x).Add(r, bi(7))
	return fmod(l).Cmp(fmod(r)) == 0
}

func gAddC(a, b *Term) *Term {
	x1, y1, i1 := gCoords(a)
	x2, y2, i2 := gCoords(b)
	if i1 {
		return b
	}
	if i2 {
		return a
	}
	var l *big.Int
	if x1.Cmp(x2) == 0 {
		if new(big.Int).Mod(new(big.Int).Add(y1, y2), primeP).Sign() == 0 {
			return gInf()
		}
		n := new(big.Int).Mul(bi(3), new(big.Int).Mul(x1, x1))
		d := new(big.Int).Mul(bi(2), y1)
		l = n.Mul(n, modInverse(fmod(d), primeP))
	} else {
		n := new(big.Int).Sub(y2, y1)
		d := new(big.Int).Sub(x2, x1)
		l = n.Mul(n, modInverse(fmod(d), primeP))
	}
	fmod(l)
	x3 := new(big.Int).Mul(l, l)
	x3.Sub(x3, x1).Sub(x3, x2)
	fmod(x3)
	y3 := new(big.Int).Sub(x1, x3)
	y3.Mul(y3, l).Sub(y3, y1)
	fmod(y3)
	return gPt(x3, y3)
}

func allConst(args []*Term) bool {
	for _, a := range args {
		if !a.IsConst() && !isGConst(a) && !isLit(a) {
			return false
		}
	}
	return true
}

func litBytes(t *Term) []byte {
	b, _ := hex.DecodeString(t.name[7:])
	return b
}

// foldApp evaluates a declared/uninterpreted function on constant arguments, or returns nil.
func foldApp(name string, sort Sort, args []*Term) *Term {
	if !concreteOn || !allConst(args) {
		return nil
	}
	switch name {
	case "finv":
		return FConst(modInverse(args[0].val, primeP), SF)
	case "ninv":
		return FConst(modInverse(args[0].val, primeN), SN)
	case "fpow_P", "fpow_N":
		m := modulusOf(args[0].sort)
		if args[1].val.Sign() < 0 || args[1].val.BitLen() > 300 {
			return nil
		}
		return FConst(new(big.Int).Exp(args[0].val, args[1].val, m), args[0].sort)
	case "issq":
		if args[0].val.Sign() == 0 {
			return BoolC(true)
		}
		e := new(big.Int).Rsh(new(big.Int).Sub(primeP, bi(1)), 1)
		return BoolC(new(big.Int).Exp(args[0].val, e, primeP).Cmp(bi(1)) == 0)
	case "modeq":
		if args[2].val.Sign() <= 0 {
			return nil
		}
		d := new(big.Int).Sub(args[0].val, args[1].val)
		return BoolC(d.Mod(d, args[2].val).Sign() == 0)
	case "powmod":
		if args[2].val.Sign() <= 0 || args[1].val.Sign() < 0 || args[1].val.BitLen() > 300 {
			return nil
		}
		return IntC(new(big.Int).Exp(args[0].val, args[1].val, args[2].val))
	case "bit", "hi":
		if args[1].val.Sign() < 0 || args[1].val.BitLen() > 16 || args[0].val.Sign() < 0 {
			return nil
		}
		if name == "hi" {
			return IntC(new(big.Int).Rsh(args[0].val, uint(args[1].val.Int64())))
		}
		v := new(big.Int).Rsh(args[0].val, uint(args[1].val.Int64()))
		return IntC(v.And(v, bi(1)))
	case "valid":
		x, y, z := args[0].val, args[1].val, args[2].val
		if x.Sign() == 0 && y.Sign() == 0 && z.Sign() == 0 {
			return BoolC(false)
		}
		l := new(big.Int).Mul(y, y)
		l.Mul(l, z)
		r := new(big.Int).Mul(x, x)
		r.Mul(r, x)
		z3 := new(big.Int).Mul(z, z)
		z3.Mul(z3, z).Mul(z3, bi(7))
		r.Add(r, z3)
		return BoolC(fmod(l).Cmp(fmod(r)) == 0)
	case "ptf":
		x, y, z := args[0].val, args[1].val, args[2].val
		if z.Sign() == 0 {
			return gInf()
		}
		zi := modInverse(z, primeP)
		ax := fmod(new(big.Int).Mul(x, zi))
		ay := fmod(new(big.Int).Mul(y, zi))
		if !onCurve(ax, ay) {
			return gInf()
		}
		return gPt(ax, ay)
	case "aff":
		if !onCurve(args[0].val, args[1].val) {
			return gInf()
		}
		return gPt(args[0].val, args[1].val)
	case "affx", "affy":
		x, y, inf := gCoords(args[0])
		if inf {
			return FConst(bi(0), SF)
		}
		if name == "affx" {
			return FConst(x, SF)
		}
		return FConst(y, SF)
	case "gzero":
		return gInf()
	case "gneg":
		x, y, inf := gCoords(args[0])
		if inf {
			return args[0]
		}
		return gPt(x, fmod(new(big.Int).Neg(y)))
	case "gadd":
		return gAddC(args[0], args[1])
	case "smul":
		k := new(big.Int).Set(args[0].val)
		if k.Sign() < 0 {
			return nil
		}
		r := gInf()
		for i := k.BitLen() - 1; i >= 0; i-- {
			r = gAddC(r, r)
			if k.Bit(i) == 1 {
				r = gAddC(r, args[1])
			}
		}
		return r
	case "H":
		d := sha256.Sum256(litBytes(args[0]))
		return StrLit(d[:])
	case "slen":
		return IntI(int64(len(litBytes(args[0]))))
	case "bytes1":
		return StrLit([]byte{byte(args[0].val.Int64())})
	case "xor8":
		return IntC(new(big.Int).Xor(args[0].val, args[1].val))
	case "rndbyte":
		j, i := int(args[0].val.Int64()), int(args[1].val.Int64())
		if rndStream == nil || j < 0 || 32*j+i >= len(rndStream) {
			return nil
		}
		return IntI(int64(rndStream[32*j+i]))
	case "firstnz":
		if rndStream == nil {
			return nil
		}
		for j := int(args[0].val.Int64()); j >= 0 && 32*j+32 <= len(rndStream); j++ {
			v := new(big.Int).SetBytes(rndStream[32*j : 32*j+32])
			if v.Mod(v, primeN).Sign() != 0 {
				return IntI(int64(j))
			}
		}
		return nil
	}
	if strings.HasPrefix(name, "fofint_") {
		return FConst(args[0].val, sort)
	}
	return nil
}
