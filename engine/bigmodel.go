package main

import (
	"go/ast"
	"go/types"
)

// Trusted model of the part of math/big used by Scalar.Pow: a *big.Int is an object carrying a ghost integer value.

func (ex *Exec) bigOf(v Value) *Obj {
	p, ok := v.(PtrV)
	if !ok || p.Obj == nil {
		ex.unsupported("nil or non-pointer *big.Int")
	}
	return p.Obj
}

func (ex *Exec) callBig(full string, args []Value, e *ast.CallExpr) (Value, bool) {
	if ex.bigVals == nil {
		ex.bigVals = map[*Obj]*Term{}
	}
	switch full {
	case "math/big.NewInt":
		t := args[0].(*Term)
		bt := ex.typeOf(e).Underlying().(*types.Pointer).Elem()
		o := ex.st.newObj("big", bt)
		o.Cells = make([]Value, leafCount(bt))
		ex.bigVals[o] = t
		return PtrV{Obj: o, Typ: bt}, true
	case "(*math/big.Int).SetBytes":
		o := ex.bigOf(args[0])
		s := args[1].(SliceV)
		if s.Abs != nil || s.SymLen != nil {
			ex.unsupported("big.Int.SetBytes of a slice of unknown length")
		}
		var parts []*Term
		for i := 0; i < s.Len; i++ {
			parts = append(parts, Mul(IntC(pow2(8*(s.Len-1-i))), ex.resolve(s.Obj.Cells[s.Off+i]).(*Term)))
		}
		v := IntI(0)
		if len(parts) > 0 {
			v = Add(parts...)
		}
		ex.bigVals[o] = v
		return args[0], true
	case "(*math/big.Int).Exp":
		o := ex.bigOf(args[0])
		x, y, m := ex.bigVals[ex.bigOf(args[1])], ex.bigVals[ex.bigOf(args[2])], ex.bigVals[ex.bigOf(args[3])]
		if x == nil || y == nil || m == nil {
			ex.unsupported("big.Int.Exp on an unset value")
		}
		// documented: for m > 0 and y >= 0 the result is x**y mod m in [0, m)
		ex.oblige("call", "big.Int.Exp#pre:m>0@"+ex.where(e), And(Lt(IntI(0), m), Le(IntI(0), y)), "")
		r := App("powmod", SInt, x, y, m)
		ex.st.addFact(And(Le(IntI(0), r), Lt(r, m)), "big.Int.Exp range")
		ex.bigVals[o] = r
		return args[0], true
	case "(*math/big.Int).FillBytes":
		// FillBytes(buf) stores the absolute value as a zero-extended big-endian byte string and returns buf; it
		// panics when the value does not fit
		o := ex.bigOf(args[0])
		v := ex.bigVals[o]
		buf := args[1].(SliceV)
		if v == nil || buf.Abs != nil || buf.SymLen != nil {
			ex.unsupported("big.Int.FillBytes on an unset value or a buffer of unknown length")
		}
		ex.oblige("safety", "big.Int.FillBytes#fits@"+ex.where(e), And(Le(IntI(0), v), Lt(v, IntC(pow2(8*buf.Len)))), "the value must fit the buffer (FillBytes panics otherwise)")
		var parts []*Term
		for i := 0; i < buf.Len; i++ {
			b := ex.freshWord("fb", u8t)
			buf.Obj.Cells[buf.Off+i] = b
			parts = append(parts, Mul(IntC(pow2(8*(buf.Len-1-i))), b))
		}
		if buf.Len > 0 {
			ex.st.addFact(Eq(Add(parts...), v), "big.Int.FillBytes value")
			ex.noteWrite(buf.Obj, buf.Off, buf.Len)
		}
		return buf, true
	case "(*math/big.Int).Bytes":
		o := ex.bigOf(args[0])
		v := ex.bigVals[o]
		if v == nil {
			ex.unsupported("big.Int.Bytes on an unset value")
		}
		// minimal-length big-endian encoding; values here are < 2^256, so the length is one of 0..32
		ex.oblige("call", "big.Int.Bytes#model:range@"+ex.where(e), And(Le(IntI(0), v), Lt(v, IntC(pow2(256)))), "model only covers values below 2^256")
		for L := 0; L <= 32; L++ {
			lo, hi := IntI(0), IntI(1)
			if L > 0 {
				lo, hi = IntC(pow2(8*(L-1))), IntC(pow2(8*L))
			}
			var c *Term
			if L == 0 {
				c = Eq(v, IntI(0))
			} else {
				c = And(Le(lo, v), Lt(v, hi))
			}
			if L == 32 || ex.decide(c, "big.Int.Bytes length") {
				bo := ex.newBytes("bigbytes", L, L)
				var parts []*Term
				for i := 0; i < L; i++ {
					b := ex.freshWord("bb", u8t)
					bo.Cells[i] = b
					parts = append(parts, Mul(IntC(pow2(8*(L-1-i))), b))
				}
				if L > 0 {
					ex.st.addFact(Eq(Add(parts...), v), "big.Int.Bytes value")
				}
				if L == 0 {
					return SliceV{Elem: types.Typ[types.Uint8]}, true
				}
				return SliceV{Obj: bo, Len: L, Cap: L, Elem: types.Typ[types.Uint8]}, true
			}
		}
	}
	return nil, false
}
