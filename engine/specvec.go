package main

import (
	"encoding/json"
	"fmt"
	"go/parser"
	"math/big"
	"os"
	"path/filepath"
	"strings"
)

// cmdSpecVectors validates the *specification* (the //@ define lines for expand_message_xmd, hash_to_field, SSWU,
// the isogeny and the group vocabulary) against the RFC 9380 test vectors shipped in /repo/tests/h2c, using only the
// concrete evaluator — the library code is not run. A check of the spec, not of the code.
func specVectors(v *Verifier) (checked, bad int, first string) {
	fr := v.prog.Lookup("secp256k1.Base")
	ex := v.newExec(fr, v.specs.Funcs["secp256k1.Base"])
	ex.resetPath()
	ex.frames = []*Frame{{pkg: fr.Pkg, fn: fr}}
	concreteOn = true
	defer func() { concreteOn = false }()
	files, _ := filepath.Glob(filepath.Join(v.prog.Root, "tests", "h2c", "*.json"))
	for _, f := range files {
		raw, err := os.ReadFile(f)
		if err != nil {
			continue
		}
		var doc struct {
			Dst          string `json:"dst"`
			RandomOracle bool   `json:"randomOracle"`
			Vectors      []struct {
				P   struct{ X, Y string }
				Q0  struct{ X, Y string }
				Msg string   `json:"msg"`
				U   []string `json:"u"`
			} `json:"vectors"`
		}
		if json.Unmarshal(raw, &doc) != nil {
			continue
		}
		for _, vec := range doc.Vectors {
			expr := "mapc(h2f(m, d, 48, 0))"
			n := 48
			if doc.RandomOracle {
				expr = "gadd(mapc(h2f(m, d, 96, 0)), mapc(h2f(m, d, 96, 1)))"
				n = 96
			}
			_ = n
			e, _ := parser.ParseExpr(expr)
			u0e, _ := parser.ParseExpr(fmt.Sprintf("fint(h2f(m, d, %d, 0))", n))
			c := &SpecCtx{ex: ex, vars: map[string]Value{"m": StrLit([]byte(vec.Msg)), "d": StrLit([]byte(doc.Dst))}, pkg: fr.Pkg}
			got := c.term(e)
			u0 := c.term(u0e)
			px, _ := new(big.Int).SetString(strings.TrimPrefix(vec.P.X, "0x"), 16)
			py, _ := new(big.Int).SetString(strings.TrimPrefix(vec.P.Y, "0x"), 16)
			wu, _ := new(big.Int).SetString(strings.TrimPrefix(vec.U[0], "0x"), 16)
			checked++
			if got != gPt(px, py) || !u0.IsConst() || u0.val.Cmp(wu) != 0 {
				bad++
				if first == "" {
					first = fmt.Sprintf("%s msg=%q: spec gives %s u0=%s, RFC vector P=(%s,%s) u0=%s", filepath.Base(f), vec.Msg, got.Short(), u0.Short(), vec.P.X, vec.P.Y, vec.U[0])
				}
			}
		}
	}
	return
}
