package main

// tryReplay attempts to confirm a failed obligation on the real code (filled in by replay_gen.go).
func (v *Verifier) tryReplay(prop string, o *Oblig, rep map[string]interface{}, tier string, seed int) bool {
	return false
}
