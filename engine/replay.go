package main

import (
	"encoding/json"
	"fmt"
	"go/ast"
	"go/types"
	"math/big"
	"math/rand"
	"os"
	"os/exec"
	"path/filepath"
	"sort"
	"strings"
	"time"
)

// ---------- replay of counterexamples and directed search on the real code ----------
//
// For a function under contract and one aliasing/nil/length case, a Go test is generated that is compiled INTO the
// function's package through `go test -overlay` (nothing is written to /repo). It reads input vectors, builds the
// arguments (honouring the aliasing case), calls the real function and prints every cell of every argument object
// and the results. The engine then evaluates the contract clause on those observed values with the concrete
// evaluator (concrete.go).

type harnessParam struct {
	name   string
	kind   string // ptr nil scalar agg slice nilslice string
	typ    types.Type
	rep    string // alias-class representative (ptr)
	leaves []leafInfo
	n      int // slice length
}

type harness struct {
	fr     *FuncRef
	cs     caseSpec
	params []harnessParam
	objs   map[string]harnessParam // representative objects
	src    string
	ok     bool
	why    string
}

func goQual(pkg *types.Package) types.Qualifier {
	return func(p *types.Package) string {
		if p == pkg {
			return ""
		}
		return p.Name()
	}
}

func goPathOf(leaf, prefix, goVar string) string {
	return goVar + strings.TrimPrefix(leaf, prefix)
}

func (v *Verifier) buildHarness(fr *FuncRef, fc *FuncContract, cs caseSpec) *harness {
	h := &harness{fr: fr, cs: cs, objs: map[string]harnessParam{}}
	q := goQual(fr.Pkg.Types)
	imports := map[string]bool{}
	noteImports := func(t types.Type) {
		var walk func(t types.Type)
		seen := map[types.Type]bool{}
		walk = func(t types.Type) {
			if seen[t] {
				return
			}
			seen[t] = true
			switch u := t.(type) {
			case *types.Named:
				if u.Obj().Pkg() != nil && u.Obj().Pkg() != fr.Pkg.Types {
					imports[u.Obj().Pkg().Path()] = true
				}
			case *types.Pointer:
				walk(u.Elem())
			case *types.Array:
				walk(u.Elem())
			case *types.Slice:
				walk(u.Elem())
			}
		}
		walk(t)
	}
	var decl, assign, dump, callArgs strings.Builder
	for _, p := range funcParams(fr) {
		if p.typ == nil {
			h.why = "unnamed parameter"
			return h
		}
		hp := harnessParam{name: p.name, typ: p.typ}
		switch u := p.typ.Underlying().(type) {
		case *types.Pointer:
			if cs.nilSet[p.name] {
				hp.kind = "nil"
				callArgs.WriteString(fmt.Sprintf("(%s)(nil), ", types.TypeString(p.typ, q)))
				break
			}
			hp.kind, hp.rep = "ptr", cs.classOf[p.name]
			if _, ok := h.objs[hp.rep]; !ok {
				leafTypes(u.Elem(), hp.rep, &hp.leaves)
				for _, l := range hp.leaves {
					if machType(l.Typ).Kind != "int" && machType(l.Typ).Kind != "bool" {
						h.why = "pointer-holding parameter object"
						return h
					}
				}
				h.objs[hp.rep] = hp
				noteImports(u.Elem())
				fmt.Fprintf(&decl, "\tvar v_%s %s\n", hp.rep, types.TypeString(u.Elem(), q))
				for _, l := range hp.leaves {
					g := goPathOf(l.Path, hp.rep, "v_"+hp.rep)
					fmt.Fprintf(&assign, "\t\t%s = %s(u64(vec[%q]))\n", g, types.TypeString(l.Typ, q), l.Path)
					fmt.Fprintf(&dump, "\t\tout[%q] = fmt.Sprint(uint64(%s))\n", l.Path, g)
				}
			}
			callArgs.WriteString(fmt.Sprintf("(%s)(&v_%s), ", types.TypeString(p.typ, q), hp.rep))
		case *types.Slice:
			n, ok := cs.lens[p.name]
			if !ok {
				// abstract slice: content and length come from the vector
				hp.kind = "absslice"
				fmt.Fprintf(&decl, "\tvar v_%s []byte\n", p.name)
				fmt.Fprintf(&assign, "\t\tv_%s = mkslice(vec[%q], vec[%q])\n\t\tbak_%s := append([]byte{}, v_%s[:cap(v_%s)]...)\n", p.name, "bytes("+p.name+")", "sparecap("+p.name+")", p.name, p.name, p.name)
				fmt.Fprintf(&dump, "\t\tout[%q] = fmt.Sprint(string(bak_%s) == string(v_%s[:cap(v_%s)]))\n", "unchanged("+p.name+")", p.name, p.name, p.name)
				callArgs.WriteString("v_" + p.name + ", ")
				break
			}
			if n == -2 {
				hp.kind = "nilslice"
				callArgs.WriteString("nil, ")
				break
			}
			if n == -1 {
				h.why = "'other length' class"
				return h
			}
			hp.kind, hp.n = "slice", n
			fmt.Fprintf(&decl, "\tvar v_%s []byte\n", p.name)
			fmt.Fprintf(&assign, "\t\tv_%s = make([]byte, %d, %d+int(u64(vec[%q])%%80))\n", p.name, n, n, "sparecap("+p.name+")")
			for i := 0; i < n; i++ {
				fmt.Fprintf(&assign, "\t\tv_%s[%d] = byte(u64(vec[%q]))\n", p.name, i, fmt.Sprintf("%s[%d]", p.name, i))
				fmt.Fprintf(&dump, "\t\tout[%q] = fmt.Sprint(uint64(v_%s[%d]))\n", fmt.Sprintf("%s[%d]", p.name, i), p.name, i)
			}
			fmt.Fprintf(&assign, "\t\tsp_%s := append([]byte{}, v_%s[:cap(v_%s)]...)\n", p.name, p.name, p.name)
			fmt.Fprintf(&dump, "\t\tout[%q] = fmt.Sprint(string(sp_%s[%d:]) == string(v_%s[:cap(v_%s)][%d:]))\n", "spare-unchanged("+p.name+")", p.name, n, p.name, p.name, n)
			callArgs.WriteString("v_" + p.name + ", ")
		case *types.Array, *types.Struct:
			hp.kind = "agg"
			leafTypes(p.typ, p.name, &hp.leaves)
			noteImports(p.typ)
			fmt.Fprintf(&decl, "\tvar v_%s %s\n", p.name, types.TypeString(p.typ, q))
			for _, l := range hp.leaves {
				g := goPathOf(l.Path, p.name, "v_"+p.name)
				fmt.Fprintf(&assign, "\t\t%s = %s(u64(vec[%q]))\n", g, types.TypeString(l.Typ, q), l.Path)
			}
			callArgs.WriteString("v_" + p.name + ", ")
		default:
			mt := machType(p.typ)
			switch mt.Kind {
			case "int":
				hp.kind = "scalar"
				if k, ok := cs.lens[p.name]; ok {
					callArgs.WriteString(fmt.Sprintf("%s(%d), ", types.TypeString(p.typ, q), k))
				} else {
					callArgs.WriteString(fmt.Sprintf("%s(u64(vec[%q])), ", types.TypeString(p.typ, q), p.name))
				}
			case "bool":
				hp.kind = "scalar"
				callArgs.WriteString(fmt.Sprintf("u64(vec[%q]) != 0, ", p.name))
			case "string":
				hp.kind = "string"
				callArgs.WriteString(fmt.Sprintf("vec[%q], ", "string("+p.name+")"))
			default:
				h.why = "parameter of unsupported type " + p.typ.String()
				return h
			}
		}
		h.params = append(h.params, hp)
	}
	usesRnd := false
	for _, m := range fc.Modifies {
		if id, ok := m.(*ast.Ident); ok && id.Name == "rnd" {
			usesRnd = true
		}
	}
	imports["bytes"] = true
	if usesRnd {
		imports["crypto/rand"] = true
		fmt.Fprintf(&assign, "\t\tstream, _ := hex.DecodeString(vec[\"stream\"])\n\t\trd := &verifRd{r: bytes.NewReader(stream)}\n\t\tsaved := rand.Reader\n\t\trand.Reader = rd\n\t\tdefer func() { rand.Reader = saved; out[\"stream.remaining\"] = fmt.Sprint(rd.r.Len()); out[\"stream.failed\"] = fmt.Sprint(rd.failed) }()\n")
	}
	// call expression
	args := strings.TrimSuffix(callArgs.String(), ", ")
	call := ""
	if fr.Decl.Recv != nil {
		i := strings.Index(args, ", ")
		recv, rest := args, ""
		if i >= 0 {
			recv, rest = args[:i], args[i+2:]
		}
		call = fmt.Sprintf("(%s).%s(%s)", recv, fr.Decl.Name.Name, rest)
	} else {
		call = fmt.Sprintf("%s(%s)", fr.Decl.Name.Name, args)
	}
	rts := resultTypes(fr)
	var lhs []string
	var rdump strings.Builder
	errNames := map[string]bool{}
	sc := fr.Pkg.Types.Scope()
	for _, n := range sc.Names() {
		if vr, ok := sc.Lookup(n).(*types.Var); ok && machType(vr.Type()).Kind == "error" {
			errNames[n] = true
		}
	}
	for i, rt := range rts {
		r := fmt.Sprintf("r%d", i)
		lhs = append(lhs, r)
		mt := machType(rt)
		switch mt.Kind {
		case "int":
			fmt.Fprintf(&rdump, "\t\tout[%q] = fmt.Sprint(uint64(%s))\n", r, r)
		case "bool":
			fmt.Fprintf(&rdump, "\t\tif %s { out[%q] = \"1\" } else { out[%q] = \"0\" }\n", r, r, r)
		case "error":
			fmt.Fprintf(&rdump, "\t\tout[%q] = \"err:other\"\n\t\tif %s == nil { out[%q] = \"err:nil\" }\n", r, r, r)
			var ens []string
			for n := range errNames {
				ens = append(ens, n)
			}
			sort.Strings(ens)
			for _, n := range ens {
				fmt.Fprintf(&rdump, "\t\tif %s == %s { out[%q] = \"err:%s.%s\" }\n", r, n, r, fr.Pkg.Name, n)
			}
		case "ptr":
			pt := rt.Underlying().(*types.Pointer).Elem()
			fmt.Fprintf(&rdump, "\t\tout[%q] = \"ptr:fresh\"\n\t\tif %s == nil { out[%q] = \"ptr:nil\" }\n", r, r, r)
			var reps []string
			for rep, o := range h.objs {
				if types.Identical(types.NewPointer(o.typ.Underlying().(*types.Pointer).Elem()), rt) {
					reps = append(reps, rep)
				}
			}
			sort.Strings(reps)
			for _, rep := range reps {
				fmt.Fprintf(&rdump, "\t\tif %s == &v_%s { out[%q] = \"ptr:%s\" }\n", r, rep, r, rep)
			}
			var leaves []leafInfo
			leafTypes(pt, r, &leaves)
			okLeaves := true
			for _, l := range leaves {
				if machType(l.Typ).Kind != "int" && machType(l.Typ).Kind != "bool" {
					okLeaves = false
				}
			}
			if okLeaves {
				fmt.Fprintf(&rdump, "\t\tif %s != nil {\n", r)
				for _, l := range leaves {
					fmt.Fprintf(&rdump, "\t\t\tout[%q] = fmt.Sprint(uint64(%s))\n", l.Path, "(*"+r+")"+strings.TrimPrefix(l.Path, r))
				}
				fmt.Fprintf(&rdump, "\t\t}\n")
			}
		case "slice":
			fmt.Fprintf(&rdump, "\t\tout[%q] = fmt.Sprintf(\"%%x\", []byte(%s))\n", r+".bytes", r)
		case "string":
			fmt.Fprintf(&rdump, "\t\tout[%q] = %s\n", r+".string", r)
		default:
			if at, ok := rt.Underlying().(*types.Array); ok && leafCount(at.Elem()) == 1 {
				fmt.Fprintf(&rdump, "\t\tfor i := range %s { out[fmt.Sprintf(\"%s[%%d]\", i)] = fmt.Sprint(uint64(%s[i])) }\n", r, r, r)
			} else {
				h.why = "result of unsupported type " + rt.String()
				return h
			}
		}
	}
	assignCall := call
	if len(lhs) > 0 {
		assignCall = strings.Join(lhs, ", ") + " := " + call
	}
	var imp strings.Builder
	var ips []string
	for p := range imports {
		ips = append(ips, p)
	}
	sort.Strings(ips)
	for _, p := range ips {
		fmt.Fprintf(&imp, "\t%q\n", p)
	}
	h.src = fmt.Sprintf(`package %s

import (
	"encoding/hex"
	"encoding/json"
	"fmt"
	"math/big"
	"os"
	"testing"
%s)

var _ = hex.EncodeToString
var _ = big.NewInt

// verifRd is the scripted entropy source: it records whether a read ever failed.
type verifRd struct {
	r      *bytes.Reader
	failed bool
}

func (v *verifRd) Read(p []byte) (int, error) {
	n, err := v.r.Read(p)
	if err != nil {
		v.failed = true
	}
	return n, err
}

var _ = bytes.NewReader

func u64(s string) uint64 {
	v, _ := new(big.Int).SetString(s, 10)
	if v == nil {
		return 0
	}
	return v.Uint64()
}

func mkslice(hx, spare string) []byte {
	b, _ := hex.DecodeString(hx)
	s := make([]byte, len(b), len(b)+int(u64(spare)%%80))
	copy(s, b)
	return s
}

func TestVerifReplayHarness(t *testing.T) {
	raw, err := os.ReadFile(os.Getenv("VERIF_VECTORS"))
	if err != nil {
		t.Fatal(err)
	}
	var vecs []map[string]string
	if err := json.Unmarshal(raw, &vecs); err != nil {
		t.Fatal(err)
	}
	var outs []map[string]string
	for _, vec := range vecs {
		outs = append(outs, runOne(vec))
	}
	b, _ := json.Marshal(outs)
	os.WriteFile(os.Getenv("VERIF_OUT"), b, 0o644)
}

func runOne(vec map[string]string) (out map[string]string) {
	out = map[string]string{}
	defer func() {
		if r := recover(); r != nil {
			out["panic"] = fmt.Sprint(r)
		}
	}()
%s	{
%s		%s
%s%s	}
	return out
}
`, fr.Pkg.Name, imp.String(), decl.String(), assign.String(), assignCall, dump.String(), rdump.String())
	h.ok = true
	return h
}

// runHarness compiles the harness into the package (overlay) and runs it on the vectors.
func (v *Verifier) runHarness(h *harness, vecs []map[string]string) ([]map[string]string, string, error) {
	tag := v.replayTag
	if tag == "" {
		tag = fmt.Sprintf("p%d", os.Getpid())
	}
	dir := filepath.Join(verifRoot, "build", "replay", tag, sanitize(h.fr.QName()))
	if os.Getenv("VERIF_REPO") != "" {
		dir = filepath.Join(os.TempDir(), fmt.Sprintf("verif-replay-%d", os.Getpid()), sanitize(h.fr.QName()))
	}
	os.MkdirAll(dir, 0o755)
	src := filepath.Join(dir, "zz_verif_replay_test.go")
	os.WriteFile(src, []byte(h.src), 0o644)
	vf := filepath.Join(dir, "vectors.json")
	of := filepath.Join(dir, "out.json")
	os.Remove(of)
	vb, _ := json.Marshal(vecs)
	os.WriteFile(vf, vb, 0o644)
	target := filepath.Join(h.fr.Pkg.Dir, "zz_verif_replay_test.go")
	ov := map[string]map[string]string{"Replace": {target: src}}
	if strings.HasPrefix(v.prog.Fset.Position(h.fr.Decl.Pos()).Filename, clientsDir) {
		// a lemma program: its source lives outside /repo; add the client files (build tag stripped) to the package
		cl, _ := filepath.Glob(filepath.Join(clientsDir, "*.go"))
		for _, cf := range cl {
			b, err := os.ReadFile(cf)
			if err != nil {
				continue
			}
			txt := strings.Replace(string(b), "//go:build verif\n", "\n", 1)
			cp := filepath.Join(dir, "zz_verif_client_"+filepath.Base(cf))
			os.WriteFile(cp, []byte(txt), 0o644)
			ov["Replace"][filepath.Join(h.fr.Pkg.Dir, "zz_verif_client_"+filepath.Base(cf))] = cp
		}
	}
	ob, _ := json.Marshal(ov)
	ovf := filepath.Join(dir, "overlay.json")
	os.WriteFile(ovf, ob, 0o644)
	rel, _ := filepath.Rel(v.prog.Root, h.fr.Pkg.Dir)
	cmd := exec.Command("go", "test", "-overlay", ovf, "-vet=off", "-count=1", "-timeout", "120s", "-run", "^TestVerifReplayHarness$", "./"+rel)
	cmd.Dir = v.prog.Root
	cmd.Env = append(os.Environ(), "GOFLAGS=-mod=mod", "GOPROXY=off", "GOSUMDB=off", "GOTOOLCHAIN=local", "VERIF_VECTORS="+vf, "VERIF_OUT="+of)
	outb, err := cmd.CombinedOutput()
	cmdline := fmt.Sprintf("cd %s && VERIF_VECTORS=%s VERIF_OUT=%s go test -overlay %s -vet=off -count=1 -timeout 120s -run '^TestVerifReplayHarness$' ./%s", v.prog.Root, vf, of, ovf, rel)
	rb, rerr := os.ReadFile(of)
	if rerr != nil {
		return nil, cmdline, fmt.Errorf("harness did not produce output: %v\n%s", err, truncate(string(outb), 2000))
	}
	var outs []map[string]string
	if err := json.Unmarshal(rb, &outs); err != nil {
		return nil, cmdline, err
	}
	return outs, cmdline, nil
}

// evalOn evaluates the clauses of fc on one observed run. Returns per-clause verdicts: "true", "false" or a residual.
func (v *Verifier) evalOn(fr *FuncRef, fc *FuncContract, cs caseSpec, vec, out map[string]string) (pre bool, verdicts map[string]string, err error) {
	defer func() {
		concreteOn = false
		if r := recover(); r != nil {
			if ee, ok := r.(engineError); ok {
				err = fmt.Errorf("%s", ee.msg)
				return
			}
			if _, ok := r.(pathEnd); ok {
				err = fmt.Errorf("path ended during concrete evaluation")
				return
			}
			panic(r)
		}
	}()
	concreteOn = true
	ex := v.newExec(fr, fc)
	ex.pattern = cs.label
	ex.resetPath()
	args := ex.setupParams(cs)
	names, _ := paramNames(fr.Decl)
	val := func(m map[string]string, key string) (*big.Int, bool) {
		s, ok := m[key]
		if !ok {
			return nil, false
		}
		b, ok := new(big.Int).SetString(s, 10)
		return b, ok
	}
	setCells := func(m map[string]string, strict bool) {
		for _, o := range ex.st.objs {
			var leaves []leafInfo
			leafTypes(o.Typ, o.Name, &leaves)
			for i, l := range leaves {
				if i >= len(o.Cells) {
					break
				}
				if b, ok := val(m, l.Path); ok {
					o.Cells[i] = ex.constOf(wrapTo(b, machType(l.Typ)), machType(l.Typ))
				} else if strict {
					if _, isT := o.Cells[i].(*Term); isT {
						o.Cells[i] = ex.constOf(bi(0), machType(l.Typ))
					}
				}
			}
		}
	}
	setCells(vec, true)
	ex.specVars = map[string]Value{}
	for i, n := range names {
		if n == "_" {
			continue
		}
		switch a := args[i].(type) {
		case *Term:
			if a.IsConst() {
				ex.specVars[n] = a
			} else if b, ok := val(vec, n); ok {
				ex.specVars[n] = ex.constOf(wrapTo(b, machType(funcParams(fr)[i].typ)), machType(funcParams(fr)[i].typ))
			} else {
				ex.specVars[n] = ex.constOf(bi(0), machType(funcParams(fr)[i].typ))
			}
		case AggV:
			o := ex.st.newObj("byval:"+n, a.Typ)
			var leaves []leafInfo
			leafTypes(a.Typ, n, &leaves)
			o.Cells = make([]Value, len(leaves))
			for j, l := range leaves {
				b, _ := val(vec, l.Path)
				if b == nil {
					b = bi(0)
				}
				o.Cells[j] = ex.constOf(wrapTo(b, machType(l.Typ)), machType(l.Typ))
			}
			ex.specVars[n] = PtrV{Obj: o, Typ: a.Typ}
		case SliceV:
			if a.Abs != nil {
				bs, _ := hexDecode(vec["bytes("+n+")"])
				a.Abs.Str = StrLit(bs)
				a.Abs.Len = IntI(int64(len(bs)))
			}
			ex.specVars[n] = a
		case OpaqueV:
			if a.Kind == "string" {
				if ex.strVals == nil {
					ex.strVals = map[string]string{}
				}
				ex.strVals[fmt.Sprint(a.Data)] = vec["string("+n+")"]
			}
			ex.specVars[n] = a
		default:
			ex.specVars[n] = args[i]
		}
	}
	ex.frames = []*Frame{{pkg: fr.Pkg, fn: fr, vars: map[types.Object]*Obj{}}}
	ex.entry = ex.snapshot()
	if st, ok := vec["stream"]; ok {
		stream, _ := hexDecode(st)
		rndStream = stream
		defer func() { rndStream = nil }()
		ex.ghost["rnd"] = IntI(0)
		ex.ghost["rndfail"] = BoolC(false)
		ex.ghostEntry = map[string]*Term{"rnd": IntI(0), "rndfail": BoolC(false)}
	}
	prectx := &SpecCtx{ex: ex, vars: ex.specVars, old: ex.entry, pkg: fr.Pkg}
	pre = true
	for _, rq := range fc.Requires {
		t := prectx.term(rq.Expr)
		if !t.IsTrue() {
			pre = false
		}
	}
	if !pre {
		return
	}
	// post state
	setCells(out, false)
	vars := map[string]Value{}
	for k, x := range ex.specVars {
		vars[k] = x
	}
	rts := resultTypes(fr)
	var results []Value
	for i, rt := range rts {
		r := fmt.Sprintf("r%d", i)
		mt := machType(rt)
		switch mt.Kind {
		case "int", "bool":
			b, _ := val(out, r)
			if b == nil {
				b = bi(0)
			}
			results = append(results, ex.constOf(wrapTo(b, mt), mt))
		case "error":
			s := out[r]
			switch {
			case s == "err:nil":
				results = append(results, IntI(0))
			case s == "err:other":
				results = append(results, IntI(999999))
			default:
				results = append(results, ex.errCode(strings.TrimPrefix(s, "err:")))
			}
		case "ptr":
			pt := rt.Underlying().(*types.Pointer).Elem()
			s := strings.TrimPrefix(out[r], "ptr:")
			switch s {
			case "nil":
				results = append(results, PtrV{Typ: pt})
			case "fresh":
				o := ex.st.newObj(r, pt)
				var leaves []leafInfo
				leafTypes(pt, r, &leaves)
				o.Cells = make([]Value, len(leaves))
				for j, l := range leaves {
					b, _ := val(out, l.Path)
					if b == nil {
						b = bi(0)
					}
					o.Cells[j] = ex.constOf(wrapTo(b, machType(l.Typ)), machType(l.Typ))
				}
				results = append(results, PtrV{Obj: o, Typ: pt})
			default:
				if p, ok := ex.specVars[s].(PtrV); ok {
					results = append(results, p)
				} else {
					results = append(results, PtrV{Typ: pt})
				}
			}
		case "slice":
			bs, _ := hexDecode(out[r+".bytes"])
			o := ex.newBytes(r, len(bs), len(bs))
			for j, b := range bs {
				o.Cells[j] = ex.constOf(bi(int64(b)), u8t)
			}
			if len(bs) == 0 {
				results = append(results, SliceV{Elem: types.Typ[types.Uint8]})
			} else {
				results = append(results, SliceV{Obj: o, Len: len(bs), Cap: len(bs), Elem: types.Typ[types.Uint8]})
			}
		case "string":
			if ex.strVals == nil {
				ex.strVals = map[string]string{}
			}
			ex.strVals["result:"+r] = out[r+".string"]
			results = append(results, OpaqueV{Kind: "string", Data: "result:" + r})
		default:
			if at, ok := rt.Underlying().(*types.Array); ok {
				cells := make([]Value, at.Len())
				for j := range cells {
					b, _ := val(out, fmt.Sprintf("%s[%d]", r, j))
					if b == nil {
						b = bi(0)
					}
					cells[j] = ex.constOf(b, machType(at.Elem()))
				}
				results = append(results, AggV{Typ: rt, Cells: cells})
			}
		}
	}
	bindResults(vars, results)
	ctx := &SpecCtx{ex: ex, vars: vars, old: ex.entry, pkg: fr.Pkg}
	verdicts = map[string]string{}
	if rem, ok := out["stream.remaining"]; ok {
		var r int
		fmt.Sscan(rem, &r)
		consumed := len(rndStream) - r
		ex.ghost["rnd"] = IntI(int64(consumed / 32))
		// a read failure is the only way to leave fewer than a whole block unread or to run dry
		ex.ghost["rndfail"] = BoolC(out["stream.failed"] == "true")
	}
	if p, ok := out["panic"]; ok {
		// the real function panicked: a violation unless the contract's ensures_panics condition holds
		if fc.Panics != nil {
			pc := &SpecCtx{ex: ex, vars: ex.specVars, old: ex.entry, pkg: fr.Pkg}
			if pc.term(fc.Panics.Expr).IsTrue() {
				verdicts["panic-allowed"] = "true"
				return
			}
		}
		verdicts["panic"] = p
		return
	}
	for _, cl := range append(append([]*Clause{}, fc.Ensures...), fc.Derives...) {
		func() {
			defer func() {
				if r := recover(); r != nil {
					verdicts[cl.Name] = fmt.Sprint("not evaluable: ", r)
				}
			}()
			t := ctx.term(cl.Expr)
			switch {
			case t.IsTrue():
				verdicts[cl.Name] = "true"
			case t.IsFalse():
				verdicts[cl.Name] = "false"
			default:
				verdicts[cl.Name] = "residual: " + t.Short()
			}
		}()
	}
	// frame: unchanged cells outside modifies, spare capacity, abstract slices
	mod := ex.modifiedSet()
	frameOK := true
	for _, o := range ex.st.objs {
		if !o.Pre {
			continue
		}
		old := ex.entry.cells[o]
		for i, c := range o.Cells {
			if mod[o][i] || i >= len(old) {
				continue
			}
			ct, ok1 := c.(*Term)
			ot, ok2 := old[i].(*Term)
			if ok1 && ok2 && !Eq(ct, ot).IsTrue() {
				frameOK = false
				verdicts["frame:"+o.Name] = "false"
			}
		}
	}
	for k, s := range out {
		if (strings.HasPrefix(k, "spare-unchanged(") || strings.HasPrefix(k, "unchanged(")) && s == "false" {
			frameOK = false
			verdicts["frame:"+strings.TrimSuffix(k[strings.Index(k, "(")+1:], ")")] = "false"
		}
	}
	_ = frameOK
	return
}

func hexDecode(s string) ([]byte, error) {
	b := make([]byte, len(s)/2)
	for i := range b {
		var x byte
		fmt.Sscanf(s[2*i:2*i+2], "%02x", &x)
		b[i] = x
	}
	return b, nil
}

var boundary64 = []string{"0", "1", "2", "18446744073709551615", "9223372036854775808", "18446744069414583343", "18446744069414583342",
	"13822214165235122497", "13451932020343611451", "18446744073709551614", "4294968273", "4294967296", "255", "256",
	"18446744069414584320", "9223372036854775807", "4294967295", "8589934592", "281474976710656"}

// genVectors: the solver model first (if any), then boundary-biased random vectors.
func (v *Verifier) genVectors(o *Oblig, keys []string, n int, seed int64) []map[string]string {
	rng := rand.New(rand.NewSource(seed))
	var vecs []map[string]string
	if o != nil && len(o.Res.Model) > 0 {
		m := map[string]string{}
		for _, k := range keys {
			switch {
			case strings.HasPrefix(k, "bytes("):
				m[k] = "61626364"
			case k == "stream":
				m[k] = strings.Repeat("00", 32) + strings.Repeat("ff", 32) + strings.Repeat("01", 32)
			case strings.HasPrefix(k, "string("):
				m[k] = ""
			default:
				m[k] = "0"
			}
		}
		for k, val := range o.Res.Model {
			if _, ok := m[k]; ok && !strings.HasPrefix(k, "bytes(") {
				m[k] = val
			}
		}
		vecs = append(vecs, m)
	}
	P, N := primeP, primeN
	interesting := []*big.Int{bi(0), bi(1), bi(2), new(big.Int).Sub(P, bi(1)), new(big.Int).Sub(N, bi(1)), new(big.Int).Sub(N, bi(2)),
		pow2(255), pow2(128), pow2(64), new(big.Int).Mod(bigR, P), new(big.Int).Mod(bigR, N), new(big.Int).Sub(pow2(256), bi(1)), N, P,
		new(big.Int).Mod(new(big.Int).Mul(bigR, bigR), N), modInverse(bigR, N), modInverse(bigR, P)}
	{
		// the exceptional inputs of the simplified SWU map (Z*u^2 == -1 with Z = -11, i.e. u = +-sqrt(1/11)), plain and in
		// Montgomery form; p = 3 mod 4, so a square root is a (p+1)/4-th power
		inv11 := modInverse(bi(11), P)
		r := new(big.Int).Exp(inv11, new(big.Int).Rsh(new(big.Int).Add(P, bi(1)), 2), P)
		if new(big.Int).Mod(new(big.Int).Mul(new(big.Int).Mul(r, r), bi(11)), P).Cmp(bi(1)) == 0 {
			nr := new(big.Int).Sub(P, r)
			for _, x := range []*big.Int{r, nr} {
				interesting = append(interesting, x, new(big.Int).Mod(new(big.Int).Mul(x, bigR), P))
			}
		}
	}
	// group keys into 4-limb numbers
	groups := map[string][]string{}
	for _, k := range keys {
		if i := strings.LastIndex(k, "["); i > 0 && strings.HasSuffix(k, "]") {
			groups[k[:i]] = append(groups[k[:i]], k)
		}
	}
	for len(vecs) < n {
		m := map[string]string{}
		for _, k := range keys {
			switch {
			case strings.HasPrefix(k, "sparecap("):
				m[k] = fmt.Sprint([]int{0, 1, 2, 3, 0, 7, 31, 32, 33, 64}[rng.Intn(10)])
			case strings.HasPrefix(k, "bytes("):
				ln := []int{0, 1, 5, 16, 32, 49, 254, 255, 256, 257, 300}[rng.Intn(11)]
				b := make([]byte, ln)
				rng.Read(b)
				m[k] = fmt.Sprintf("%x", b)
			case k == "stream":
				// entropy stream: blocks that are 0, n, multiples/neighbours of n, or random; sometimes too short
				nb := 1 + rng.Intn(4)
				var st []byte
				for j := 0; j < nb; j++ {
					var blk *big.Int
					switch rng.Intn(6) {
					case 0:
						blk = bi(0)
					case 1:
						blk = N
					case 2:
						blk = new(big.Int).Add(N, pow2(128))
					case 3:
						blk = new(big.Int).Sub(pow2(256), bi(1))
					default:
						blk = new(big.Int).Rand(rng, pow2(256))
					}
					st = append(st, blk.FillBytes(make([]byte, 32))...)
				}
				if rng.Intn(8) == 0 {
					st = st[:len(st)-1-rng.Intn(20)]
				}
				m[k] = fmt.Sprintf("%x", st)
			case strings.HasPrefix(k, "string("):
				b := make([]byte, []int{0, 1, 32, 33, 65, 31}[rng.Intn(6)])
				rng.Read(b)
				s := fmt.Sprintf("%x", b)
				if rng.Intn(6) == 0 {
					s += "0"
				}
				m[k] = s
			default:
				if rng.Intn(3) == 0 {
					m[k] = boundary64[rng.Intn(len(boundary64))]
				} else if rng.Intn(4) == 0 {
					m[k] = fmt.Sprint(rng.Intn(4))
				} else {
					m[k] = fmt.Sprint(rng.Uint64())
				}
			}
		}
		for g, ks := range groups {
			if len(ks) == 4 && rng.Intn(2) == 0 {
				var val *big.Int
				switch rng.Intn(4) {
				case 0:
					val = interesting[rng.Intn(len(interesting))]
				case 1:
					// the Montgomery form of an interesting value (so that the canonical value is the structured one),
					// or of a value with whole limbs zero / all ones
					m := []*big.Int{N, P}[rng.Intn(2)]
					v := interesting[rng.Intn(len(interesting))]
					if rng.Intn(2) == 0 {
						v = new(big.Int)
						for i := 0; i < 4; i++ {
							var limb *big.Int
							switch rng.Intn(3) {
							case 0:
								limb = bi(0)
							case 1:
								limb = new(big.Int).Sub(pow2(64), bi(1))
							default:
								limb = new(big.Int).SetUint64(rng.Uint64())
							}
							v.Add(v, new(big.Int).Lsh(limb, uint(64*i)))
						}
					}
					val = new(big.Int).Mod(new(big.Int).Mul(new(big.Int).Mod(v, m), bigR), m)
				default:
					val = new(big.Int).Rand(rng, N)
				}
				for i := 0; i < 4; i++ {
					limb := new(big.Int).And(new(big.Int).Rsh(val, uint(64*i)), new(big.Int).Sub(pow2(64), bi(1)))
					m[fmt.Sprintf("%s[%d]", g, i)] = limb.String()
				}
			}
			if len(ks) == 4 && rng.Intn(3) == 0 {
				// structured limbs: a run of all-ones limbs, boundary values elsewhere (carry-chain corner cases)
				lo, hi := rng.Intn(4), rng.Intn(4)
				if lo > hi {
					lo, hi = hi, lo
				}
				for i := 0; i < 4; i++ {
					k := fmt.Sprintf("%s[%d]", g, i)
					switch {
					case i >= lo && i <= hi && !(lo == 0 && hi == 3):
						m[k] = "18446744073709551615"
					case rng.Intn(2) == 0:
						m[k] = boundary64[rng.Intn(len(boundary64))]
					default:
						m[k] = fmt.Sprint(rng.Uint64())
					}
				}
			} else if len(ks) == 4 && rng.Intn(3) == 0 {
				// Montgomery one / small constants as the partner operand
				val := []*big.Int{new(big.Int).Mod(bigR, P), new(big.Int).Mod(bigR, N), bi(1), bi(2)}[rng.Intn(4)]
				for i := 0; i < 4; i++ {
					limb := new(big.Int).And(new(big.Int).Rsh(val, uint(64*i)), new(big.Int).Sub(pow2(64), bi(1)))
					m[fmt.Sprintf("%s[%d]", g, i)] = limb.String()
				}
			}
			if len(ks) >= 32 && rng.Intn(2) == 0 { // big-endian byte arrays near interesting values
				val := interesting[rng.Intn(len(interesting))]
				if rng.Intn(2) == 0 {
					val = new(big.Int).Add(val, bi(int64(rng.Intn(3)-1)))
				}
				if val.Sign() >= 0 {
					b := val.FillBytes(make([]byte, 33))[1:]
					off := len(ks) - 32
					for i := 0; i < 32; i++ {
						m[fmt.Sprintf("%s[%d]", g, off+i)] = fmt.Sprint(b[i])
					}
				}
			}
		}
		// related operands: a second 4-limb group that equals another one except in the upper halves of some limbs
		// (or in a single bit), and groups whose limbs are all multiples of 2^32 - what truncating conversions and
		// partial comparisons get wrong
		{
			var g4 []string
			for g, ks := range groups {
				if len(ks) == 4 {
					g4 = append(g4, g)
				}
			}
			sort.Strings(g4)
			if len(g4) >= 2 && rng.Intn(4) == 0 {
				a, b := g4[rng.Intn(len(g4))], g4[rng.Intn(len(g4))]
				if a != b {
					for i := 0; i < 4; i++ {
						va, _ := new(big.Int).SetString(m[fmt.Sprintf("%s[%d]", a, i)], 10)
						if va == nil {
							va = bi(0)
						}
						vb := new(big.Int).Set(va)
						switch rng.Intn(4) {
						case 0:
							vb.Xor(vb, new(big.Int).Lsh(bi(int64(1+rng.Intn(1<<16))), 32+uint(rng.Intn(16))))
						case 1:
							vb.Xor(vb, new(big.Int).Lsh(bi(1), uint(rng.Intn(64))))
						}
						m[fmt.Sprintf("%s[%d]", b, i)] = vb.String()
					}
				}
			}
			if len(g4) >= 1 && rng.Intn(6) == 0 {
				a := g4[rng.Intn(len(g4))]
				for i := 0; i < 4; i++ {
					v := new(big.Int).Lsh(bi(int64(rng.Intn(1<<20))), 32)
					if rng.Intn(3) == 0 {
						v = bi(0)
					}
					m[fmt.Sprintf("%s[%d]", a, i)] = v.String()
				}
			}
		}
		// byte slices that look like SEC1 encodings: 65- and 33-byte groups and pairs of 32-byte groups are filled with
		// valid encodings of small multiples of G, with the non-canonical twin x + p of a point with tiny x, with
		// unusual prefix bytes, or with y replaced by p - y
		{
			var g32 []string
			for g, ks := range groups {
				if len(ks) == 32 {
					g32 = append(g32, g)
				}
			}
			sort.Strings(g32)
			pick := func() (x, y *big.Int) {
				if rng.Intn(3) == 0 {
					// a point with tiny x: x^3 + 7 must be a square (p = 3 mod 4)
					for xx := int64(1); xx < 40; xx++ {
						x0 := bi(xx + int64(rng.Intn(8)))
						rhs := new(big.Int).Mod(new(big.Int).Add(new(big.Int).Exp(x0, bi(3), P), bi(7)), P)
						y0 := new(big.Int).Exp(rhs, new(big.Int).Rsh(new(big.Int).Add(P, bi(1)), 2), P)
						if new(big.Int).Mod(new(big.Int).Mul(y0, y0), P).Cmp(rhs) == 0 {
							return x0, y0
						}
					}
				}
				gx, _ := new(big.Int).SetString("79be667ef9dcbbac55a06295ce870b07029bfcdb2dce28d959f2815b16f81798", 16)
				gy, _ := new(big.Int).SetString("483ada7726a3c4655da4fbfc0e1108a8fd17b448a68554199c47d08ffb10d4b8", 16)
				pt, G := gInf(), gPt(gx, gy)
				k := 1 + rng.Intn(15)
				for i := 0; i < k; i++ {
					pt = gAddC(pt, G)
				}
				x, y, _ = gCoords(pt)
				return x, y
			}
			put := func(g string, off int, v *big.Int) {
				b := new(big.Int).Mod(v, pow2(256)).FillBytes(make([]byte, 32))
				for i := 0; i < 32; i++ {
					m[fmt.Sprintf("%s[%d]", g, off+i)] = fmt.Sprint(b[i])
				}
			}
			twist := func(x, y *big.Int) (*big.Int, *big.Int) {
				switch rng.Intn(5) {
				case 0:
					if x.BitLen() < 30 {
						return new(big.Int).Add(x, P), y // non-canonical x
					}
				case 1:
					if y.BitLen() < 30 {
						return x, new(big.Int).Add(y, P)
					}
					return x, new(big.Int).Sub(P, y)
				}
				return x, y
			}
			for g, ks := range groups {
				if rng.Intn(2) == 0 {
					continue
				}
				switch len(ks) {
				case 65:
					x, y := twist(pick())
					m[g+"[0]"] = []string{"4", "4", "4", "6", "7", "0"}[rng.Intn(6)]
					put(g, 1, x)
					put(g, 33, y)
				case 33:
					x, y := pick()
					x2, _ := twist(x, y)
					pre := 2 + int(y.Bit(0))
					if rng.Intn(3) == 0 {
						pre = []int{2, 3, 6, 7, 0x82, 0x12, 4, 0}[rng.Intn(8)]
					}
					m[g+"[0]"] = fmt.Sprint(pre)
					put(g, 1, x2)
				}
			}
			if len(g32) == 2 && rng.Intn(2) == 0 {
				x, y := twist(pick())
				put(g32[0], 0, x)
				put(g32[1], 0, y)
			}
		}
		// objects that look like projective points (x.E, y.E, z.E limb groups): mostly valid curve points in
		// assorted representations, so that preconditions of the group-level contracts are met
		for g := range groups {
			if !strings.HasSuffix(g, ".x.E") {
				continue
			}
			base := strings.TrimSuffix(g, ".x.E")
			if _, ok := groups[base+".y.E"]; !ok {
				continue
			}
			if _, ok := groups[base+".z.E"]; !ok || rng.Intn(5) == 0 {
				continue
			}
			setF := func(grp string, val *big.Int) {
				mont := new(big.Int).Mod(new(big.Int).Mul(val, bigR), P)
				for i := 0; i < 4; i++ {
					limb := new(big.Int).And(new(big.Int).Rsh(mont, uint(64*i)), new(big.Int).Sub(pow2(64), bi(1)))
					m[fmt.Sprintf("%s[%d]", grp, i)] = limb.String()
				}
			}
			var k *big.Int
			switch rng.Intn(6) {
			case 0:
				k = bi(0)
			case 1:
				k = bi(int64(1 + rng.Intn(3)))
			case 2:
				k = new(big.Int).Sub(N, bi(int64(1+rng.Intn(2))))
			default:
				k = new(big.Int).Rand(rng, N)
			}
			if len(vecs) > 0 && rng.Intn(4) == 0 && lastK != nil { // related points: P, -P, same point again
				k = lastK
				if rng.Intn(2) == 0 {
					k = new(big.Int).Mod(new(big.Int).Neg(lastK), N)
				}
			}
			lastK = k
			gx, _ := new(big.Int).SetString("79be667ef9dcbbac55a06295ce870b07029bfcdb2dce28d959f2815b16f81798", 16)
			gy, _ := new(big.Int).SetString("483ada7726a3c4655da4fbfc0e1108a8fd17b448a68554199c47d08ffb10d4b8", 16)
			pt := gInf()
			G := gPt(gx, gy)
			for i := k.BitLen() - 1; i >= 0; i-- {
				pt = gAddC(pt, pt)
				if k.Bit(i) == 1 {
					pt = gAddC(pt, G)
				}
			}
			x, y, inf := gCoords(pt)
			var z *big.Int
			switch rng.Intn(6) {
			case 0:
				z = bi(1)
			case 1:
				z = modInverse(bigR, P) // Montgomery limbs {1,0,0,0}
			case 2:
				z = pow2(64 * (1 + rng.Intn(3)))
			case 3:
				// Montgomery limbs that are all multiples of 2^32 (some of them zero)
				ml := new(big.Int)
				for i := 0; i < 4; i++ {
					if rng.Intn(2) == 0 {
						ml.Add(ml, new(big.Int).Lsh(bi(int64(1+rng.Intn(1<<20))), uint(64*i+32)))
					}
				}
				if ml.Sign() == 0 {
					ml = pow2(32)
				}
				z = new(big.Int).Mod(new(big.Int).Mul(new(big.Int).Mod(ml, P), modInverse(bigR, P)), P)
				if z.Sign() == 0 {
					z = bi(1)
				}
			default:
				z = new(big.Int).Rand(rng, P)
				if z.Sign() == 0 {
					z = bi(1)
				}
			}
			if inf {
				yy := new(big.Int).Rand(rng, P)
				if yy.Sign() == 0 || rng.Intn(2) == 0 {
					yy = bi(1)
				}
				setF(base+".x.E", bi(0))
				setF(base+".y.E", yy)
				setF(base+".z.E", bi(0))
			} else {
				setF(base+".x.E", new(big.Int).Mod(new(big.Int).Mul(x, z), P))
				setF(base+".y.E", new(big.Int).Mod(new(big.Int).Mul(y, z), P))
				setF(base+".z.E", z)
			}
		}
		vecs = append(vecs, m)
	}
	return vecs
}

var lastK *big.Int

// tryReplay: confirm a failed obligation on the real code. The model (if any) is tried first, then a directed search.
func (v *Verifier) tryReplay(prop string, o *Oblig, rep map[string]interface{}, tier string, seed int) (confirmed bool) {
	defer func() {
		if r := recover(); r != nil {
			rep["replay_error"] = fmt.Sprint(r)
			confirmed = false
		}
	}()
	if strings.Contains(o.Name, "crypto.Hash.New#pre:registered") {
		return v.replayBareMain(rep)
	}
	fr := v.prog.Lookup(o.Func)
	fc := v.specs.Funcs[o.Func]
	if fr == nil || fc == nil {
		return false
	}
	n := 1500
	if tier == "thorough" {
		n = 20000
	}
	t0 := time.Now()
	cases := v.enumerateCases(fr, fc)
	// the failing case first
	sort.SliceStable(cases, func(i, j int) bool { return cases[i].label == o.Pattern && cases[j].label != o.Pattern })
	tried := 0
	for ci, cs := range cases {
		if ci > 5 || time.Since(t0) > 90*time.Second {
			break
		}
		h := v.buildHarness(fr, fc, cs)
		if !h.ok {
			rep["replay_unsupported"] = h.why
			continue
		}
		// input keys
		ex := v.newExec(fr, fc)
		ex.resetPath()
		func() {
			defer func() { recover() }()
			ex.setupParams(cs)
		}()
		var keys []string
		for k := range ex.inputs {
			keys = append(keys, k)
		}
		for _, p := range h.params {
			if p.kind == "absslice" {
				keys = append(keys, "bytes("+p.name+")")
			}
			if p.kind == "string" {
				keys = append(keys, "string("+p.name+")")
			}
		}
		if strings.Contains(h.src, "rand.Reader = rd") {
			keys = append(keys, "stream")
		}
		sort.Strings(keys)
		var model *Oblig
		if cs.label == o.Pattern {
			model = o
		}
		vecs := v.genVectors(model, keys, n, int64(seed)+int64(ci))
		outs, cmdline, err := v.runHarness(h, vecs)
		if err != nil {
			rep["replay_error"] = err.Error()
			continue
		}
		for i, out := range outs {
			pre, verdicts, err := v.evalOn(fr, fc, cs, vecs[i], out)
			if err != nil || !pre {
				continue
			}
			tried++
			var bad []string
			for name, vd := range verdicts {
				if vd == "false" || name == "panic" {
					bad = append(bad, name)
				}
			}
			if len(bad) > 0 {
				sort.Strings(bad)
				rep["found_by"] = "directed-search"
				if i == 0 && model != nil && len(o.Res.Model) > 0 {
					rep["found_by"] = "model"
				}
				rep["case"] = cs.label
				rep["inputs"] = vecs[i]
				rep["observed"] = out
				rep["violated_clauses"] = bad
				rep["verdicts"] = verdicts
				rep["cmd"] = cmdline
				rep["harness"] = filepath.Join(verifRoot, "build", "replay", sanitize(fr.QName()), "zz_verif_replay_test.go")
				rep["note"] = "the harness is compiled into the package with go test -overlay; re-running cmd with the single vector reproduces 'observed'"
				// keep a one-vector file for the replay command
				one, _ := json.Marshal([]map[string]string{vecs[i]})
				os.WriteFile(filepath.Join(verifRoot, "build", "replay", sanitize(fr.QName()), "vectors.json"), one, 0o644)
				return true
			}
		}
	}
	rep["directed_search_runs"] = tried
	return false
}

// replayBareMain builds and runs a minimal non-test program that imports only the package (C17): in a test binary
// crypto/sha256 is always linked, so the missing registration can only be observed in a plain main.
func (v *Verifier) replayBareMain(rep map[string]interface{}) bool {
	dir, err := os.MkdirTemp("", "verif-c17-")
	if err != nil {
		return false
	}
	defer os.RemoveAll(dir)
	os.WriteFile(filepath.Join(dir, "go.mod"), []byte("module c17probe\n\ngo 1.22\n\nrequire "+modPath+" v0.0.0\n\nreplace "+modPath+" => "+v.prog.Root+"\n"), 0o644)
	os.WriteFile(filepath.Join(dir, "main.go"), []byte(`package main

import (
	"fmt"

	"`+modPath+`"
)

func main() {
	fmt.Println(secp256k1.HashToScalar([]byte("msg"), []byte("a-domain-separation-tag")).Hex())
	fmt.Println(secp256k1.HashToGroup([]byte("msg"), []byte("a-domain-separation-tag")).Hex())
	fmt.Println(secp256k1.EncodeToGroup([]byte("msg"), []byte("a-domain-separation-tag")).Hex())
}
`), 0o644)
	cfgs := []buildConfig{defaultCfg, altConfigs[0]}
	if v.cfgLabel != "" {
		cfgs = nil
		for _, c := range altConfigs {
			if c.Name == v.cfgLabel {
				cfgs = []buildConfig{c}
			}
		}
	}
	for _, cfg := range cfgs {
		if cfg.GOOS != "linux" || (cfg.GOARCH != "amd64" && cfg.GOARCH != "386") {
			continue // cannot be executed on this machine
		}
		args := []string{"run"}
		if len(cfg.Tags) > 0 {
			args = append(args, "-tags", strings.Join(cfg.Tags, ","))
		}
		args = append(args, ".")
		cmd := exec.Command("go", args...)
		cmd.Dir = dir
		cmd.Env = append(os.Environ(), "GOFLAGS=-mod=mod", "GOPROXY=off", "GOSUMDB=off", "GOTOOLCHAIN=local", "GOOS="+cfg.GOOS, "GOARCH="+cfg.GOARCH, "CGO_ENABLED=0")
		out, err := cmd.CombinedOutput()
		if err != nil && (strings.Contains(string(out), "unavailable") || strings.Contains(string(out), "panic:")) {
			rep["found_by"] = "bare-main"
			rep["inputs"] = map[string]string{"program": "package main importing only " + modPath, "build_configuration": cfg.Name}
			rep["observed"] = truncate(string(out), 1500)
			rep["cmd"] = "GOOS=" + cfg.GOOS + " GOARCH=" + cfg.GOARCH + " go run " + strings.Join(args[1:], " ") + "   (module with `replace " + modPath + " => " + v.prog.Root + "`, main calling the three hashing functions)"
			return true
		}
	}
	return false
}

// wrapTo reduces an input value to the range of its machine type, the way the harness's conversion T(u64(s)) does.
func wrapTo(b *big.Int, mt mtype) *big.Int {
	if b == nil || mt.Kind != "int" || mt.W == 0 {
		return b
	}
	r := new(big.Int).Mod(b, pow2(mt.W))
	if mt.Signed && r.Cmp(pow2(mt.W-1)) >= 0 {
		r.Sub(r, pow2(mt.W))
	}
	return r
}
