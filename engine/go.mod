module verif/engine

go 1.22
