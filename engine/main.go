package main

import (
	"fmt"
	"os"
	"path/filepath"
	"runtime/pprof"
	"sort"
	"strings"
	"time"
)

var repoRoot = "/repo"

func main() {
	if len(os.Args) < 2 {
		fmt.Println("usage: vcheck func <pkg.Func>... | prop <Cxx> [--tier quick|thorough] | list")
		exit(2)
	}
	if r := os.Getenv("VERIF_REPO"); r != "" {
		repoRoot = r
	}
	if pf := os.Getenv("VERIF_PROF"); pf != "" {
		f, _ := os.Create(pf)
		pprof.StartCPUProfile(f)
		defer pprof.StopCPUProfile()
	}
	switch os.Args[1] {
	case "func":
		rc := cmdFunc(os.Args[2:])
		pprof.StopCPUProfile()
		exit(rc)
	case "func-old":
		exit(cmdFunc(os.Args[2:]))
	case "prop":
		exit(cmdProp(os.Args[2:]))
	case "list":
		exit(cmdList())
	case "lemmas":
		exit(cmdLemmas(os.Args[2:]))
	case "sweep":
		exit(cmdSweep(os.Args[2:]))
	case "stdmodels":
		v, err := load()
		if err != nil {
			fmt.Println("ENGINE-ERROR:", err)
			exit(2)
		}
		rep, bad := v.stdModelConformance(200, 5)
		fmt.Printf("standard-library model conformance: %v wrappers, %v proved from the model, %v runs of the real functions\n", rep["wrappers"], rep["proved_from_model"], rep["real_runs"])
		for _, b := range bad {
			fmt.Println("  PROBLEM:", b)
		}
		if len(bad) > 0 {
			exit(1)
		}
		exit(0)
	case "coverage":
		exit(cmdCoverage())
	case "specvectors":
		v, err := load()
		if err != nil {
			fmt.Println("ENGINE-ERROR:", err)
			exit(2)
		}
		n, bad, first := specVectors(v)
		fmt.Printf("RFC 9380 vectors evaluated against the contract-level specification: %d, mismatches %d %s\n", n, bad, first)
		if bad > 0 || n == 0 {
			exit(1)
		}
		exit(0)
	case "isohom":
		v, err := load()
		if err != nil {
			fmt.Println("ENGINE-ERROR:", err)
			exit(2)
		}
		e, nt, f, w := testIsoHom(v, 2000, 1)
		fmt.Printf("iso_hom_chord: evaluated=%d with-hypotheses-true=%d false=%d %s\n", e, nt, f, w)
		if f > 0 {
			exit(1)
		}
		exit(0)
	case "replay":
		exit(cmdReplay(os.Args[2:]))
	}
	fmt.Println("unknown command")
	exit(2)
}

func load() (*Verifier, error) {
	prog, err := LoadProgram(repoRoot)
	if err != nil {
		return nil, err
	}
	var specs *Specs
	func() {
		defer func() {
			if r := recover(); r != nil {
				if ee, ok := r.(engineError); ok {
					err = fmt.Errorf("%s", ee.msg)
					return
				}
				panic(r)
			}
		}()
		specs = ParseSpecs(prog)
	}()
	if err != nil {
		return nil, err
	}
	applyLeanStamp(specs)
	v := &Verifier{prog: prog, specs: specs}
	if os.Getenv("VERIF_NO_RENAME") == "" {
		v.renameNotes = adaptContractsToRenames(prog, specs)
	}
	return v, nil
}

func cmdList() int {
	v, err := load()
	if err != nil {
		fmt.Println("ENGINE-ERROR:", err)
		return 2
	}
	var names []string
	for n := range v.specs.Funcs {
		names = append(names, n)
	}
	sort.Strings(names)
	for _, n := range names {
		fc := v.specs.Funcs[n]
		fmt.Printf("%-50s mode=%-7s requires=%d ensures=%d derives=%d\n", n, fc.Mode, len(fc.Requires), len(fc.Ensures), len(fc.Derives))
	}
	return 0
}

func cmdFunc(args []string) int {
	v, err := load()
	if err != nil {
		fmt.Println("ENGINE-ERROR:", err)
		return 2
	}
	timeout := 20
	rc := 0
	for _, name := range args {
		if strings.HasPrefix(name, "-t=") {
			fmt.Sscanf(name, "-t=%d", &timeout)
			continue
		}
		fr := v.prog.Lookup(name)
		fc := v.specs.Funcs[name]
		if fr == nil || fc == nil {
			fmt.Printf("no such function/contract: %s\n", name)
			rc = 2
			continue
		}
		t0 := time.Now()
		res, err := v.CheckFunc(fr, fc, timeout, false)
		if err != nil {
			fmt.Println("ENGINE-ERROR:", err)
			rc = 2
			continue
		}
		nfail := 0
		for _, r := range res {
			mark := "ok  "
			if r.Status != "discharged" {
				mark = "FAIL"
				nfail++
			}
			fmt.Printf("  %s %-70s subs=%d trivial=%d %.2fs %v\n", mark, r.Name, r.Subs, r.Trivial, r.Seconds, r.Solvers)
			if r.Worst != nil {
				fmt.Printf("       -> %s [%s] %s: %s\n", r.Worst.Sub, r.Worst.Res.Solver, r.Worst.Res.Result, r.Worst.Info)
				if len(r.Worst.Res.Model) > 0 {
					fmt.Printf("       model: %s\n", truncate(fmt.Sprint(r.Worst.Res.Model), 400))
				}
			}
		}
		fmt.Printf("%s: %d obligations, %d failed, %s\n", name, len(res), nfail, fmtDur(time.Since(t0)))
		if nfail > 0 && rc == 0 {
			rc = 1
		}
	}
	return rc
}

// CheckFunc generates and discharges all obligations of one function.
func (v *Verifier) CheckFunc(fr *FuncRef, fc *FuncContract, timeout int, all bool) ([]*ObResult, error) {
	obs, err := v.VerifyFunc(fr, fc)
	if err != nil {
		return nil, err
	}
	return Discharge(obs, timeout, all), nil
}

func cmdReplay(args []string) int { fmt.Println("not implemented"); return 2 }

// applyLeanStamp marks lemmas whose Lean counterpart SecpSMT.<name> compiled with standard axioms only.
func applyLeanStamp(sp *Specs) {
	var stamp struct {
		Theorems map[string]struct {
			Ok     bool     `json:"ok"`
			Axioms []string `json:"axioms"`
		} `json:"theorems"`
	}
	if err := loadJSON(verifRoot+"/lemmas/build/stamp.json", &stamp); err != nil {
		return
	}
	for name, lm := range sp.Lemmas {
		if t, ok := stamp.Theorems["SecpSMT."+name]; ok && t.Ok {
			lm.Status = "lean-proved"
		}
	}
}

// cmdCoverage lists every function of the module with its status: under contract, inlined into a verified caller,
// or untouched by any verification run.
func cmdCoverage() int {
	v, err := load()
	if err != nil {
		fmt.Println("ENGINE-ERROR:", err)
		return 2
	}
	for n, fc := range v.specs.Funcs {
		v.VerifyFunc(v.prog.Lookup(n), fc)
	}
	var rows []string
	untouched := 0
	for _, p := range v.prog.Pkgs {
		for k := range p.Funcs {
			q := p.Name + "." + k
			st := "UNTOUCHED"
			if _, ok := v.specs.Funcs[q]; ok {
				st = "contract"
			} else if inlinedFuncs[q] {
				st = "inlined"
			} else {
				untouched++
			}
			rows = append(rows, fmt.Sprintf("%-10s %s", st, q))
		}
	}
	sort.Strings(rows)
	for _, r := range rows {
		fmt.Println(r)
	}
	fmt.Printf("%d functions, %d untouched\n", len(rows), untouched)
	return 0
}

// exit removes this process's scratch files (SMT scripts, scratch-copy replay directories) and exits.
func exit(rc int) {
	if !keepSMT {
		ms, _ := filepath.Glob(filepath.Join(workDir, fmt.Sprintf("*-%d.*.smt2", os.Getpid())))
		for _, m := range ms {
			os.Remove(m)
		}
	}
	if os.Getenv("VERIF_REPO") != "" {
		os.RemoveAll(filepath.Join(os.TempDir(), fmt.Sprintf("verif-replay-%d", os.Getpid())))
	} else {
		os.RemoveAll(filepath.Join(verifRoot, "build", "replay", fmt.Sprintf("p%d", os.Getpid())))
	}
	os.Exit(rc)
}
