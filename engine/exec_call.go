package main

import (
	"fmt"
	"go/ast"
	"go/token"
	"go/types"
	"math/big"
)

func (ex *Exec) evalCall(e *ast.CallExpr) Value {
	info := ex.frame().pkg.Info
	// type conversion?
	if tv, ok := info.Types[e.Fun]; ok && tv.IsType() {
		return ex.evalConversion(e, tv.Type)
	}
	// builtin?
	if id, ok := unparen(e.Fun).(*ast.Ident); ok {
		if b, ok := info.Uses[id].(*types.Builtin); ok {
			return ex.evalBuiltin(e, b.Name())
		}
	}
	// a function literal called on the spot, or a local variable holding one
	switch f := unparen(e.Fun).(type) {
	case *ast.FuncLit:
		return ex.callClosure(ClosureV{Lit: f, Env: ex.frame()}, e)
	case *ast.Ident:
		if _, isVar := info.Uses[f].(*types.Var); isVar {
			if cl, ok := ex.eval(f).(ClosureV); ok {
				return ex.callClosure(cl, e)
			}
			ex.unsupported("call through a function value that is not a local function literal at %s", ex.where(e))
		}
	}
	fobj, args := ex.prepCall(e)
	return ex.doCall(fobj, args, e)
}

// callClosure executes the body of a function literal in a new frame whose parent is the frame it was created in.
func (ex *Exec) callClosure(cl ClosureV, e *ast.CallExpr) Value {
	if len(ex.frames) > 40 {
		ex.unsupported("call depth exceeded at %s", ex.where(e))
	}
	var args []Value
	for _, a := range e.Args {
		args = append(args, ex.eval(a))
	}
	if e.Ellipsis.IsValid() {
		ex.unsupported("variadic call of a function literal at %s", ex.where(e))
	}
	info := cl.Env.pkg.Info
	fm := &Frame{pkg: cl.Env.pkg, vars: map[types.Object]*Obj{}, parent: cl.Env}
	ex.frames = append(ex.frames, fm)
	i := 0
	if cl.Lit.Type.Params != nil {
		for _, f := range cl.Lit.Type.Params.List {
			if len(f.Names) == 0 {
				i++
				continue
			}
			for _, n := range f.Names {
				if i >= len(args) {
					ex.unsupported("function literal called with too few arguments at %s", ex.where(e))
				}
				if n.Name != "_" {
					t := info.Defs[n].Type()
					if _, isSlice := t.Underlying().(*types.Slice); isSlice && f.Type != nil {
						if _, variadic := f.Type.(*ast.Ellipsis); variadic {
							ex.unsupported("variadic function literal at %s", ex.where(e))
						}
					}
					ex.declare(n, t, ex.coerce(args[i], t))
				}
				i++
			}
		}
	}
	if i != len(args) {
		ex.unsupported("function literal called with %d arguments, wants %d at %s", len(args), i, ex.where(e))
	}
	var named []*ast.Ident
	if cl.Lit.Type.Results != nil {
		for _, f := range cl.Lit.Type.Results.List {
			for _, n := range f.Names {
				ex.declare(n, info.Defs[n].Type(), nil)
				named = append(named, n)
			}
		}
	}
	c := ex.execBlock(cl.Lit.Body.List)
	ex.runDefers()
	res := fm.results
	if c == ctlReturn && len(res) == 0 {
		for _, n := range named {
			res = append(res, ex.load(fm.vars[info.Defs[n]], 0, info.Defs[n].Type()))
		}
	}
	ex.frames = ex.frames[:len(ex.frames)-1]
	return pack(res)
}

// deferredCall is a call whose function and arguments were evaluated at the defer statement (as Go does) and that
// runs when the enclosing function returns.
type deferredCall struct {
	fobj *types.Func
	args []Value
	at   *ast.CallExpr
}

func (ex *Exec) execDefer(s *ast.DeferStmt) {
	info := ex.frame().pkg.Info
	if tv, ok := info.Types[s.Call.Fun]; ok && tv.IsType() {
		ex.unsupported("deferred conversion at %s", ex.where(s))
	}
	if id, ok := unparen(s.Call.Fun).(*ast.Ident); ok {
		if b, ok := info.Uses[id].(*types.Builtin); ok {
			switch b.Name() {
			case "clear", "copy":
			default:
				ex.unsupported("deferred builtin %s at %s", b.Name(), ex.where(s))
			}
			// the arguments are evaluated now, the builtin runs at return
			var vals []Value
			for _, a := range s.Call.Args {
				vals = append(vals, ex.eval(a))
			}
			fm := ex.frame()
			fm.defers = append(fm.defers, deferredCall{nil, vals, s.Call})
			return
		}
	}
	if lit, ok := unparen(s.Call.Fun).(*ast.FuncLit); ok {
		if len(s.Call.Args) > 0 {
			ex.unsupported("deferred function literal with arguments at %s", ex.where(s))
		}
		fm := ex.frame()
		// results are fixed when the return statement runs; a deferred literal that assigns to a named result
		// would change them afterwards, which is not modelled
		named := map[types.Object]bool{}
		if fm.fn != nil && fm.fn.Decl.Type.Results != nil {
			for _, f := range fm.fn.Decl.Type.Results.List {
				for _, n := range f.Names {
					named[fm.pkg.Info.Defs[n]] = true
				}
			}
		}
		bad := fm.fn == nil
		ast.Inspect(lit.Body, func(n ast.Node) bool {
			if id, ok := n.(*ast.Ident); ok && named[fm.pkg.Info.Uses[id]] {
				bad = true
			}
			return true
		})
		if bad {
			ex.unsupported("deferred function literal that may change a named result at %s", ex.where(s))
		}
		fm.defers = append(fm.defers, deferredCall{nil, []Value{ClosureV{Lit: lit, Env: fm}}, s.Call})
		return
	}
	fobj, args := ex.prepCall(s.Call)
	fm := ex.frame()
	fm.defers = append(fm.defers, deferredCall{fobj, args, s.Call})
}

// runDefers runs the deferred calls of the innermost frame, last in first out.
func (ex *Exec) runDefers() {
	fm := ex.frame()
	for len(fm.defers) > 0 {
		d := fm.defers[len(fm.defers)-1]
		fm.defers = fm.defers[:len(fm.defers)-1]
		if d.fobj == nil {
			if cl, ok := d.args[0].(ClosureV); ok && len(d.args) == 1 {
				if _, isLit := unparen(d.at.Fun).(*ast.FuncLit); isLit {
					ex.callClosure(cl, d.at)
					continue
				}
			}
			// deferred builtin with its arguments fixed at the defer statement
			ex.evalOverride = map[ast.Expr]Value{}
			for i, a := range d.at.Args {
				ex.evalOverride[a] = d.args[i]
			}
			ex.evalBuiltin(d.at, unparen(d.at.Fun).(*ast.Ident).Name)
			ex.evalOverride = nil
			continue
		}
		ex.doCall(d.fobj, d.args, d.at)
	}
}

func (ex *Exec) doCall(fobj *types.Func, args []Value, e *ast.CallExpr) Value {
	full := fobj.FullName()
	if fr := ex.prog.FuncOf(fobj); fr != nil {
		return ex.callModule(fr, args, e)
	}
	return ex.callStd(full, fobj, args, e)
}

// prepCall resolves the callee of e and evaluates receiver and arguments.
func (ex *Exec) prepCall(e *ast.CallExpr) (*types.Func, []Value) {
	info := ex.frame().pkg.Info
	var fobj *types.Func
	var recvExpr ast.Expr
	methodExpr := false
	switch f := unparen(e.Fun).(type) {
	case *ast.Ident:
		fobj, _ = info.Uses[f].(*types.Func)
	case *ast.SelectorExpr:
		if sel := info.Selections[f]; sel != nil {
			fobj, _ = sel.Obj().(*types.Func)
			if sel.Kind() == types.MethodExpr {
				methodExpr = true // (*T).M(recv, args...): the receiver is the first ordinary argument
			} else {
				recvExpr = f.X
			}
		} else {
			fobj, _ = info.Uses[f.Sel].(*types.Func)
		}
	}
	if fobj == nil {
		ex.unsupported("call of non-function at %s", ex.where(e))
	}
	sig := fobj.Type().(*types.Signature)
	var args []Value
	if recvExpr != nil {
		rt := sig.Recv().Type()
		xt := ex.typeOf(recvExpr)
		_, wantPtr := rt.Underlying().(*types.Pointer)
		_, havePtr := xt.Underlying().(*types.Pointer)
		switch {
		case types.IsInterface(rt):
			args = append(args, ex.eval(recvExpr))
		case wantPtr && !havePtr:
			l := ex.lvalue(recvExpr)
			args = append(args, PtrV{Obj: l.Obj, Off: l.Off, Typ: l.Typ})
		case !wantPtr && havePtr:
			p := ex.eval(recvExpr).(PtrV)
			args = append(args, ex.load(p.Obj, p.Off, p.Typ))
		default:
			args = append(args, ex.eval(recvExpr))
		}
	}
	callArgs := e.Args
	if methodExpr {
		if len(e.Args) == 0 {
			ex.unsupported("method expression without receiver at %s", ex.where(e))
		}
		args = append(args, ex.eval(e.Args[0]))
		callArgs = e.Args[1:]
	}
	// arguments (variadic handled for the callee's last parameter)
	np := sig.Params().Len()
	if sig.Variadic() && !e.Ellipsis.IsValid() {
		for i := 0; i < np-1; i++ {
			args = append(args, ex.eval(callArgs[i]))
		}
		var extra []Value
		for i := np - 1; i < len(callArgs); i++ {
			extra = append(extra, ex.eval(callArgs[i]))
		}
		args = append(args, TupleV(extra))
	} else if len(callArgs) == 1 && np > 1 {
		args = append(args, ex.eval(callArgs[0]).(TupleV)...)
	} else {
		for _, a := range callArgs {
			args = append(args, ex.eval(a))
		}
	}
	off := len(args) - len(callArgs)
	if !sig.Variadic() && len(callArgs) == np {
		for i := 0; i < np; i++ {
			args[off+i] = ex.coerce(args[off+i], sig.Params().At(i).Type())
		}
	}
	return fobj, args
}

func pack(vals []Value) Value {
	switch len(vals) {
	case 0:
		return nil
	case 1:
		return vals[0]
	}
	return TupleV(vals)
}

func (ex *Exec) callModule(fr *FuncRef, args []Value, at ast.Node) Value {
	if ex.trace != nil && !ex.forceInline {
		ex.trace = App("enter:"+fr.QName(), STr, ex.trace)
	}
	fc := ex.specs.Funcs[fr.QName()]
	if fc != nil && !ex.forceInline && !(fr.Pkg == ex.fn.Pkg && fr.Key == ex.fn.Key && len(ex.frames) == 0) {
		return ex.applyContract(fc, fr, args, at)
	}
	return ex.inline(fr, args, at)
}

func paramNames(fd *ast.FuncDecl) (names []string, idents []*ast.Ident) {
	if fd.Recv != nil {
		for _, f := range fd.Recv.List {
			for _, n := range f.Names {
				names = append(names, n.Name)
				idents = append(idents, n)
			}
			if len(f.Names) == 0 {
				names = append(names, "_")
				idents = append(idents, nil)
			}
		}
	}
	for _, f := range fd.Type.Params.List {
		for _, n := range f.Names {
			names = append(names, n.Name)
			idents = append(idents, n)
		}
		if len(f.Names) == 0 {
			names = append(names, "_")
			idents = append(idents, nil)
		}
	}
	return
}

var inlinedFuncs = map[string]bool{}

func (ex *Exec) inline(fr *FuncRef, args []Value, at ast.Node) Value {
	inlinedFuncs[fr.QName()] = true
	if len(ex.frames) > 40 {
		ex.unsupported("inline depth exceeded at %s", fr.QName())
	}
	fm := &Frame{pkg: fr.Pkg, fn: fr, vars: map[types.Object]*Obj{}}
	names, idents := paramNames(fr.Decl)
	if len(names) != len(args) {
		ex.unsupported("inline %s: %d params vs %d args", fr.QName(), len(names), len(args))
	}
	ex.frames = append(ex.frames, fm)
	for i, id := range idents {
		if id == nil || id.Name == "_" {
			continue
		}
		o := fr.Pkg.Info.Defs[id]
		v := args[i]
		t := o.Type()
		if tv, ok := v.(TupleV); ok { // variadic
			st := t.Underlying().(*types.Slice)
			obj := ex.st.newObj("variadic", types.NewArray(st.Elem(), int64(len(tv))))
			obj.Cells = append([]Value{}, tv...)
			v = SliceV{Obj: obj, Len: len(tv), Cap: len(tv), Elem: st.Elem()}
		}
		ex.declare(id, t, v)
	}
	// named results
	if fr.Decl.Type.Results != nil {
		for _, f := range fr.Decl.Type.Results.List {
			for _, n := range f.Names {
				ex.declare(n, fr.Pkg.Info.Defs[n].Type(), nil)
			}
		}
	}
	c := ex.execBlock(fr.Decl.Body.List)
	ex.runDefers()
	res := fm.results
	if c == ctlReturn && len(res) == 0 && fr.Decl.Type.Results != nil {
		for _, f := range fr.Decl.Type.Results.List {
			for _, n := range f.Names {
				res = append(res, ex.load(fm.vars[fr.Pkg.Info.Defs[n]], 0, fr.Pkg.Info.Defs[n].Type()))
			}
		}
	}
	ex.frames = ex.frames[:len(ex.frames)-1]
	return pack(res)
}

func (ex *Exec) evalConversion(e *ast.CallExpr, to types.Type) Value {
	arg := e.Args[0]
	from := ex.typeOf(arg)
	v := ex.eval(arg)
	mf, mt := machType(from), machType(to)
	switch {
	case mt.Kind == "int" && mf.Kind == "int", mt.Kind == "bool" && mf.Kind == "bool":
		return ex.convert(v.(*Term), mf, mt, ex.where(e))
	case mt.Kind == "float" && mf.Kind == "int":
		t := v.(*Term)
		if !t.IsConst() {
			ex.unsupported("float conversion of symbolic value at %s", ex.where(e))
		}
		return OpaqueV{Kind: "float", Data: new(big.Rat).SetInt(t.val)}
	case mt.Kind == "int" && mf.Kind == "float":
		r := v.(OpaqueV).Data.(*big.Rat)
		q := new(big.Int).Quo(r.Num(), r.Denom())
		return ex.constOf(q, mt)
	case mt.Kind == "ptr":
		p := v.(PtrV)
		p.Typ = to.Underlying().(*types.Pointer).Elem()
		return p
	case mt.Kind == "slice" && mf.Kind == "string":
		s := v.(StrV).S
		at := types.NewArray(types.Typ[types.Uint8], int64(len(s)))
		o := ex.st.newObj("strbytes", at)
		o.Cells = make([]Value, len(s))
		for i := range s {
			o.Cells[i] = ex.constOf(bi(int64(s[i])), machType(types.Typ[types.Uint8]))
		}
		return SliceV{Obj: o, Len: len(s), Cap: len(s), Elem: types.Typ[types.Uint8]}
	case mt.Kind == "slice" && mf.Kind == "slice":
		return v
	}
	if at, ok := to.Underlying().(*types.Array); ok {
		if s, ok := v.(SliceV); ok { // slice -> array
			n := int(at.Len())
			if s.Abs != nil {
				return ex.absToArray(s, n, e)
			}
			if s.Len < n {
				ex.oblige("safety", "slice-to-array@"+ex.where(e), BoolC(false), fmt.Sprintf("slice of length %d converted to [%d]", s.Len, n))
				panic(pathEnd{"slice to array length"})
			}
			return ex.load(s.Obj, s.Off, to)
		}
		if a, ok := v.(AggV); ok {
			a.Typ = to
			return a
		}
	}
	if a, ok := v.(AggV); ok {
		a.Typ = to
		return a
	}
	if machType(to).Kind == machType(from).Kind {
		return v
	}
	ex.unsupported("conversion %s -> %s at %s", from, to, ex.where(e))
	return nil
}

func (ex *Exec) newBytes(name string, n, cp int) *Obj {
	at := types.NewArray(types.Typ[types.Uint8], int64(cp))
	o := ex.st.newObj(name, at)
	o.Cells = make([]Value, cp)
	z := ex.constOf(bi(0), machType(types.Typ[types.Uint8]))
	for i := range o.Cells {
		o.Cells[i] = z
	}
	return o
}

func (ex *Exec) evalBuiltin(e *ast.CallExpr, name string) Value {
	intT := machType(types.Typ[types.Int])
	switch name {
	case "len", "cap":
		v := ex.eval(e.Args[0])
		switch s := v.(type) {
		case SliceV:
			if s.Abs != nil {
				if name == "cap" {
					ex.unsupported("cap of abstract slice")
				}
				return s.Abs.Len
			}
			if s.SymLen != nil {
				if name == "len" {
					return s.SymLen
				}
				ex.unsupported("cap of a slice of unknown length")
			}
			if name == "len" {
				return ex.constOf(bi(int64(s.Len)), intT)
			}
			if s.Obj != nil && s.Obj.SpareCap != nil {
				return ex.capTerm(s)
			}
			return ex.constOf(bi(int64(s.Cap)), intT)
		case AggV:
			at := s.Typ.Underlying().(*types.Array)
			return ex.constOf(bi(at.Len()), intT)
		case PtrV:
			at := s.Typ.Underlying().(*types.Array)
			return ex.constOf(bi(at.Len()), intT)
		case StrV:
			return ex.constOf(bi(int64(len(s.S))), intT)
		}
	case "new":
		t := ex.typeOf(e.Args[0])
		o := ex.st.newObj("new@"+ex.where(e), t)
		o.Cells = make([]Value, leafCount(t))
		ex.storeInit(o, t, ex.zeroValue(t))
		return PtrV{Obj: o, Typ: t}
	case "make":
		t := ex.typeOf(e.Args[0])
		st, ok := t.Underlying().(*types.Slice)
		if !ok {
			ex.unsupported("make of %s", t)
		}
		ln := ex.evalTerm(e.Args[1])
		cp := ln
		if len(e.Args) > 2 {
			cp = ex.evalTerm(e.Args[2])
		}
		if !ln.IsConst() || !cp.IsConst() {
			return ex.makeAbs(st, ln, cp, e)
		}
		if leafCount(st.Elem()) != 1 {
			ex.unsupported("make of non-scalar slice")
		}
		n, c := int(ln.val.Int64()), int(cp.val.Int64())
		o := ex.newBytes("make@"+ex.where(e), n, c)
		z := ex.zeroValue(st.Elem())
		for i := range o.Cells {
			o.Cells[i] = z
		}
		return SliceV{Obj: o, Len: n, Cap: c, Elem: st.Elem()}
	case "copy":
		d := ex.eval(e.Args[0]).(SliceV)
		s := ex.eval(e.Args[1]).(SliceV)
		if d.Abs != nil || s.Abs != nil {
			return ex.copyAbs(d, s, e)
		}
		n := d.Len
		if s.Len < n {
			n = s.Len
		}
		tmp := make([]Value, n)
		for i := 0; i < n; i++ {
			tmp[i] = s.Obj.Cells[s.Off+i]
		}
		for i := 0; i < n; i++ {
			d.Obj.Cells[d.Off+i] = tmp[i]
		}
		if n > 0 {
			ex.noteWrite(d.Obj, d.Off, n)
		}
		return ex.constOf(bi(int64(n)), intT)
	case "append":
		return ex.evalAppend(e)
	case "panic":
		ex.reachedPanic(e)
		panic(pathEnd{"panic"})
	case "min", "max":
		a, b := ex.evalTerm(e.Args[0]), ex.evalTerm(e.Args[1])
		if a.IsConst() && b.IsConst() {
			if (a.val.Cmp(b.val) < 0) == (name == "min") {
				return a
			}
			return b
		}
		mt := machType(ex.typeOf(e.Args[0]))
		if mt.Kind == "int" && len(e.Args) == 2 {
			lt := ex.cmpop(token.LSS, a, b, mt)
			if name == "min" {
				return Ite(lt, a, b)
			}
			return Ite(lt, b, a)
		}
	case "clear":
		if s, ok := ex.eval(e.Args[0]).(SliceV); ok && s.Abs == nil && s.SymLen == nil {
			st := ex.typeOf(e.Args[0]).Underlying().(*types.Slice)
			if leafCount(st.Elem()) == 1 {
				z := ex.zeroValue(st.Elem())
				for i := 0; i < s.Len; i++ {
					s.Obj.Cells[s.Off+i] = z
				}
				if s.Len > 0 {
					ex.noteWrite(s.Obj, s.Off, s.Len)
				}
				return nil
			}
		}
	}
	ex.unsupported("builtin %s at %s", name, ex.where(e))
	return nil
}

func (ex *Exec) reachedPanic(at ast.Node) {
	if ex.fc != nil && ex.fc.Panics != nil {
		// allowed when the contract's panic condition holds on entry
		c := ex.entryCtx()
		c.inOld = false // ghost state is read as of now; parameters are bound to their entry values anyway
		cond := c.term(ex.fc.Panics.Expr)
		ex.oblige("panic", "allowed@"+ex.where(at), cond, "panic reached only under ensures_panics condition")
		ex.panicPaths++
		return
	}
	ex.oblige("safety", "panic-unreachable@"+ex.where(at), BoolC(false), "explicit panic must be unreachable")
}

func (ex *Exec) evalAppend(e *ast.CallExpr) Value {
	s := ex.eval(e.Args[0]).(SliceV)
	var add []Value
	st := ex.typeOf(e.Args[0]).Underlying().(*types.Slice)
	if e.Ellipsis.IsValid() {
		src := ex.eval(e.Args[1]).(SliceV)
		if s.Abs != nil || src.Abs != nil {
			return ex.appendAbs(s, src, e)
		}
		for i := 0; i < src.Len; i++ {
			add = append(add, src.Obj.Cells[src.Off+i])
		}
	} else {
		for _, a := range e.Args[1:] {
			add = append(add, ex.eval(a))
		}
		if s.Abs != nil {
			return ex.appendAbsCells(s, add, e)
		}
	}
	return ex.appendConcrete(s, add, st.Elem(), e)
}

// appendConcrete appends cells to a slice with a concrete shape (in place when the capacity allows).
func (ex *Exec) appendConcrete(s SliceV, add []Value, elem types.Type, e ast.Node) Value {
	if len(add) == 0 {
		return s
	}
	need := s.Len + len(add)
	inPlace := need <= s.Cap
	if s.Obj != nil && s.Obj.SpareCap != nil && !inPlace {
		// caller-owned slice with unknown spare capacity: fork on whether the append fits
		extra := int64(need - s.Cap)
		if ex.decide(Le(IntI(extra), s.Obj.SpareCap), ex.where(e)) {
			for len(s.Obj.Cells) < s.Off+need {
				b := ex.freshWord("spare", machType(types.Typ[types.Uint8]))
				s.Obj.Cells = append(s.Obj.Cells, b)
				s.Obj.Init = append(s.Obj.Init, b)
			}
			s.Cap = need
			inPlace = true
		}
	}
	if inPlace {
		for i, v := range add {
			s.Obj.Cells[s.Off+s.Len+i] = v
		}
		ex.noteWrite(s.Obj, s.Off+s.Len, len(add))
		return SliceV{Obj: s.Obj, Off: s.Off, Len: need, Cap: s.Cap, Elem: s.Elem}
	}
	// reallocate (capacity growth policy is unspecified: new cap = need)
	o := ex.st.newObj("append@"+ex.where(e), types.NewArray(elem, int64(need)))
	o.Cells = make([]Value, need)
	for i := 0; i < s.Len; i++ {
		o.Cells[i] = s.Obj.Cells[s.Off+i]
	}
	for i, v := range add {
		o.Cells[s.Len+i] = v
	}
	return SliceV{Obj: o, Len: need, Cap: need, Elem: elem}
}

func (ex *Exec) capTerm(s SliceV) *Term {
	return Add(IntI(int64(s.Cap)), s.Obj.SpareCap)
}
