package main

import (
	"fmt"
	"go/token"
	"math/big"
)

// Mode of symbolic execution of a function body.
//
//	bv     : machine integers are bit-vectors (exact)
//	int    : machine integers are mathematical integers in [0,2^w) (exact via wrap variables)
type Mode struct {
	Name   string // bv int staged ring abs
	BV     bool
	Staged bool
}

var W64 = pow2(64)

func (ex *Exec) wordSort(mt mtype) Sort {
	if mt.Bool {
		return SBool
	}
	if ex.mode.BV {
		return SBV(mt.W)
	}
	return SInt
}

func (ex *Exec) constOf(v *big.Int, mt mtype) *Term {
	if mt.Bool {
		return BoolC(v.Sign() != 0)
	}
	if ex.mode.BV {
		return BVC(v, mt.W)
	}
	if !mt.Signed {
		v = new(big.Int).Mod(v, pow2(mt.W))
	}
	return IntC(v)
}

func (ex *Exec) freshWord(prefix string, mt mtype) *Term {
	t := Fresh(prefix, ex.wordSort(mt))
	ex.noteRange(t, mt)
	return t
}

func (ex *Exec) namedWord(name string, mt mtype) *Term {
	t := Var(name, ex.wordSort(mt))
	ex.noteRange(t, mt)
	return t
}

func (ex *Exec) noteRange(t *Term, mt mtype) {
	if t.sort.K == KInt && !mt.Signed && mt.W > 0 {
		ex.st.ranges[t] = pow2(mt.W)
	}
}

// upper returns a known exclusive upper bound of an Int term, or nil.
func (ex *Exec) upper(t *Term) *big.Int {
	if t.IsConst() {
		if t.val.Sign() < 0 {
			return nil
		}
		return new(big.Int).Add(t.val, bi(1))
	}
	if bd, ok := ex.st.bind[t]; ok && bd != t {
		// a result variable that a callee's postcondition defines by an equation
		if u := ex.upper(bd); u != nil {
			if r, ok := ex.st.ranges[t]; !ok || u.Cmp(r) < 0 {
				return u
			}
		}
	}
	if b, ok := ex.st.ranges[t]; ok {
		return b
	}
	switch t.op {
	case "ite":
		a, b := ex.upper(t.args[1]), ex.upper(t.args[2])
		if a != nil && b != nil {
			if a.Cmp(b) > 0 {
				return a
			}
			return b
		}
	case "mod":
		if t.args[1].IsConst() && t.args[1].val.Sign() > 0 {
			return t.args[1].val
		}
	case "div":
		if t.args[1].IsConst() && t.args[1].val.Sign() > 0 {
			if a := ex.upper(t.args[0]); a != nil {
				q := new(big.Int).Sub(a, bi(1))
				q.Div(q, t.args[1].val)
				return q.Add(q, bi(1))
			}
		}
	case "+", "*":
		// sums and products of terms that are known to be non-negative and bounded (every bounded term here is a
		// machine word or a flag, so a known upper bound implies 0 <= t)
		acc := bi(0)
		if t.op == "*" {
			acc = bi(1)
		}
		for _, a := range t.args {
			if a.IsConst() && a.val.Sign() < 0 {
				return nil
			}
			u := ex.upper(a)
			if u == nil {
				return nil
			}
			m := new(big.Int).Sub(u, bi(1))
			if t.op == "+" {
				acc.Add(acc, m)
			} else {
				acc.Mul(acc, m)
			}
		}
		return acc.Add(acc, bi(1))
	}
	return nil
}

func (ex *Exec) unsupported(format string, a ...interface{}) {
	panic(engineError{fmt.Sprintf(format, a...)})
}

type engineError struct{ msg string }

// binary arithmetic on machine values of type mt
func (ex *Exec) binop(op token.Token, x, y *Term, mt mtype, where string) *Term {
	if mt.Bool {
		switch op {
		case token.LAND:
			return And(x, y)
		case token.LOR:
			return Or(x, y)
		case token.EQL:
			return Eq(x, y)
		case token.NEQ:
			return Not(Eq(x, y))
		}
		ex.unsupported("bool op %v", op)
	}
	if ex.mode.BV {
		switch op {
		case token.ADD:
			return BVAdd(x, y)
		case token.SUB:
			return BVSub(x, y)
		case token.MUL:
			return BVMul(x, y)
		case token.AND:
			return BVAnd(x, y)
		case token.OR:
			return BVOr(x, y)
		case token.XOR:
			return BVXor(x, y)
		case token.AND_NOT:
			return BVAnd(x, BVNot(y))
		case token.SHL:
			return BVShl(x, ZExt(y, x.sort.W))
		case token.SHR:
			if mt.Signed {
				ex.unsupported("signed shift")
			}
			return BVLshr(x, ZExt(y, x.sort.W))
		case token.QUO, token.REM:
			if x.IsConst() && y.IsConst() && y.val.Sign() != 0 {
				if op == token.QUO {
					return BVC(new(big.Int).Div(x.val, y.val), x.sort.W)
				}
				return BVC(new(big.Int).Mod(x.val, y.val), x.sort.W)
			}
			ex.unsupported("bv division")
		}
		ex.unsupported("bv op %v", op)
	}
	// int mode
	mod := pow2(mt.W)
	wrap := func(t *Term) *Term {
		if mt.Signed {
			// signed ints are only used for lengths/indices/flags: require constant folding or small values
			return t
		}
		if t.IsConst() {
			return IntC(new(big.Int).Mod(t.val, mod))
		}
		return nil
	}
	switch op {
	case token.ADD:
		s := Add(x, y)
		if r := wrap(s); r != nil {
			return r
		}
		ux, uy := ex.upper(x), ex.upper(y)
		if ux != nil && uy != nil && new(big.Int).Add(ux, uy).Cmp(new(big.Int).Add(mod, bi(1))) <= 0 {
			return s // cannot wrap
		}
		r := ex.freshWord("add", mt)
		w := Fresh("wrap", SInt)
		ex.st.ranges[w] = bi(2)
		ex.st.addFact(Eq(Add(r, Mul(IntC(mod), w)), s), where+":add")
		ex.st.spec = append(ex.st.spec, SpecLemma{Eq(w, IntI(0)), len(ex.st.facts), "nowrap@" + where})
		return r
	case token.SUB:
		s := Sub(x, y)
		if r := wrap(s); r != nil {
			return r
		}
		if uy := ex.upper(y); !mt.Signed && x.IsConst() && uy != nil && x.val.Cmp(new(big.Int).Sub(uy, bi(1))) >= 0 {
			return s // constant minus something no larger: cannot wrap
		}
		if ux := ex.upper(x); !mt.Signed && y.IsConst() && ux != nil && ux.Cmp(bi(4)) <= 0 {
			// a flag (or a value below 4) minus a constant: enumerate, so that (f - 1) is seen as the mask it is
			var r *Term
			for v := ux.Int64() - 1; v >= 0; v-- {
				k := IntC(new(big.Int).Mod(new(big.Int).Sub(bi(v), y.val), mod))
				if r == nil {
					r = k
				} else {
					r = Ite(Eq(x, IntI(v)), k, r)
				}
			}
			return r
		}
		r := ex.freshWord("sub", mt)
		w := Fresh("wrap", SInt)
		ex.st.ranges[w] = bi(2)
		ex.st.addFact(Eq(Sub(r, Mul(IntC(mod), w)), s), where+":sub")
		return r
	case token.MUL:
		s := Mul(x, y)
		if r := wrap(s); r != nil {
			return r
		}
		ux, uy := ex.upper(x), ex.upper(y)
		if ux != nil && uy != nil {
			m := new(big.Int).Mul(new(big.Int).Sub(ux, bi(1)), new(big.Int).Sub(uy, bi(1)))
			if m.Cmp(mod) < 0 {
				return s
			}
		}
		if x.IsConst() || y.IsConst() {
			return Mod(s, IntC(mod))
		}
		ex.unsupported("int-mode symbolic wrapping multiplication at %s", where)
	case token.QUO:
		if y.IsConst() && y.val.Sign() > 0 {
			return Div(x, y)
		}
	case token.REM:
		if y.IsConst() && y.val.Sign() > 0 {
			return Mod(x, y)
		}
	case token.SHR:
		if y.IsConst() {
			return Div(x, IntC(pow2(int(y.val.Int64()))))
		}
	case token.SHL:
		if y.IsConst() {
			s := Mul(x, IntC(pow2(int(y.val.Int64()))))
			if r := wrap(s); r != nil {
				return r
			}
			if ux := ex.upper(x); ux != nil && !mt.Signed && new(big.Int).Mul(new(big.Int).Sub(ux, bi(1)), pow2(int(y.val.Int64()))).Cmp(mod) < 0 {
				return s // cannot wrap
			}
			return Mod(s, IntC(mod))
		}
	case token.AND_NOT:
		if r := ex.bitSpecial(op, x, y, mt); r != nil {
			return r
		}
		if y.IsConst() && !mt.Signed {
			return ex.binop(token.AND, x, IntC(new(big.Int).Xor(new(big.Int).Sub(mod, bi(1)), y.val)), mt, where)
		}
	case token.AND:
		if r := ex.bitSpecial(op, x, y, mt); r != nil {
			return r
		}
		if x.IsConst() && !y.IsConst() {
			x, y = y, x
		}
		if x.IsConst() && y.IsConst() {
			return IntC(new(big.Int).And(x.val, y.val))
		}
		if y.IsConst() {
			// mask 2^k-1
			m1 := new(big.Int).Add(y.val, bi(1))
			if m1.BitLen() > 0 && new(big.Int).And(m1, y.val).Sign() == 0 {
				if y.val.Sign() == 0 {
					return IntI(0)
				}
				if m1.Cmp(bi(256)) == 0 {
					if b := ex.byteOfWord(x); b != nil {
						return b
					}
				}
				return Mod(x, IntC(m1))
			}
			if x.op == "ite" && x.args[1].IsConst() && x.args[2].IsConst() {
				return Ite(x.args[0], IntC(new(big.Int).And(x.args[1].val, y.val)), IntC(new(big.Int).And(x.args[2].val, y.val)))
			}
		}
		r := ex.freshWord("and", mt)
		one := IntI(1)
		ex.st.addFact(And(Le(r, x), Le(r, y),
			Implies(And(Le(x, one), Le(y, one)), Eq(Eq(r, one), And(Eq(x, one), Eq(y, one))))), where+":and")
		return r
	case token.OR:
		if r := ex.bitSpecial(op, x, y, mt); r != nil {
			return r
		}
		if x.IsConst() && y.IsConst() {
			return IntC(new(big.Int).Or(x.val, y.val))
		}
		if x.IsConst() && x.val.Sign() == 0 {
			return y
		}
		if y.IsConst() && y.val.Sign() == 0 {
			return x
		}
		r := ex.freshWord("or", mt)
		z := IntI(0)
		one := IntI(1)
		ex.st.addFact(And(
			Eq(Eq(r, z), And(Eq(x, z), Eq(y, z))),
			Le(x, r), Le(y, r), Le(r, Add(x, y)),
			Implies(And(Le(x, one), Le(y, one)), Le(r, one)),
		), where+":or")
		return r
	case token.XOR:
		if r := ex.bitSpecial(op, x, y, mt); r != nil {
			return r
		}
		if x.IsConst() && y.IsConst() {
			return IntC(new(big.Int).Xor(x.val, y.val))
		}
		if mt.W == 8 {
			r := Xor8(x, y)
			if !r.IsConst() {
				ex.st.addFact(And(Le(IntI(0), r), Lt(r, IntI(256))), where+":xor8")
			}
			return r
		}
		r := ex.freshWord("xor", mt)
		z := IntI(0)
		one := IntI(1)
		ex.st.addFact(And(
			Eq(Eq(r, z), Eq(x, y)),
			Le(r, Add(x, y)),
			Implies(And(Le(x, one), Le(y, one)), Le(r, one)),
		), where+":xor")
		return r
	}
	ex.unsupported("int-mode op %v on symbolic operands at %s", op, where)
	return nil
}

func (ex *Exec) cmpop(op token.Token, x, y *Term, mt mtype) *Term {
	if x.sort.K == KBool {
		switch op {
		case token.EQL:
			return Eq(x, y)
		case token.NEQ:
			return Not(Eq(x, y))
		}
	}
	if x.sort.K == KBV {
		if mt.Signed && !(x.IsConst() && y.IsConst()) && op != token.EQL && op != token.NEQ {
			ex.unsupported("signed bv comparison")
		}
		switch op {
		case token.EQL:
			return Eq(x, y)
		case token.NEQ:
			return Not(Eq(x, y))
		case token.LSS:
			return BVUlt(x, y)
		case token.LEQ:
			return BVUle(x, y)
		case token.GTR:
			return BVUlt(y, x)
		case token.GEQ:
			return BVUle(y, x)
		}
	}
	switch op {
	case token.EQL:
		return Eq(x, y)
	case token.NEQ:
		return Not(Eq(x, y))
	case token.LSS:
		return Lt(x, y)
	case token.LEQ:
		return Le(x, y)
	case token.GTR:
		return Lt(y, x)
	case token.GEQ:
		return Le(y, x)
	}
	ex.unsupported("cmp op %v", op)
	return nil
}

func (ex *Exec) unop(op token.Token, x *Term, mt mtype, where string) *Term {
	switch op {
	case token.NOT:
		return Not(x)
	case token.ADD:
		return x
	case token.SUB:
		if ex.mode.BV {
			return BVNeg(x)
		}
		if mt.Signed {
			return Neg(x)
		}
		if x.IsConst() {
			return IntC(new(big.Int).Mod(new(big.Int).Neg(x.val), pow2(mt.W)))
		}
		// -x mod 2^w = ite(x==0,0,2^w-x); for a 0/1 flag that is the all-zeros / all-ones mask
		if ub := ex.upper(x); ub != nil && ub.Cmp(bi(2)) <= 0 {
			return Ite(Eq(x, IntI(0)), IntI(0), IntC(new(big.Int).Sub(pow2(mt.W), bi(1))))
		}
		return Ite(Eq(x, IntI(0)), IntI(0), Sub(IntC(pow2(mt.W)), x))
	case token.XOR:
		if ex.mode.BV {
			return BVNot(x)
		}
		return Sub(IntC(new(big.Int).Sub(pow2(mt.W), bi(1))), x)
	}
	ex.unsupported("unop %v", op)
	return nil
}

// convert a machine value between integer types
func (ex *Exec) convert(x *Term, from, to mtype, where string) *Term {
	if from.Bool || to.Bool {
		return x
	}
	if ex.mode.BV {
		if to.W == x.sort.W {
			return x
		}
		if to.W < x.sort.W {
			return Extract(x, to.W-1, 0)
		}
		if from.Signed {
			ex.unsupported("sign extension")
		}
		return ZExt(x, to.W)
	}
	// int mode
	if to.W >= from.W && (to.Signed == from.Signed || !from.Signed && to.W > from.W) {
		return x
	}
	if x.IsConst() {
		v := new(big.Int).Mod(x.val, pow2(to.W))
		if to.Signed && v.Cmp(pow2(to.W-1)) >= 0 {
			v.Sub(v, pow2(to.W))
		}
		return IntC(v)
	}
	if to.W == from.W && to.Signed != from.Signed {
		// same-width signedness change: identity when value < 2^(w-1); record a side condition
		ub := ex.upper(x)
		if ub != nil && ub.Cmp(new(big.Int).Add(pow2(to.W-1), bi(1))) <= 0 {
			return x
		}
		ex.oblige("safety", "signconv@"+where, Lt(x, IntC(pow2(to.W-1))), "")
		return x
	}
	// narrowing
	ub := ex.upper(x)
	if to.W == 8 && !to.Signed && x.op == "div" {
		if b := ex.byteOfWord(x); b != nil {
			return b
		}
	}
	if ub != nil && ub.Cmp(pow2(to.W)) <= 0 && !to.Signed {
		return x
	}
	if to.W == 8 && !to.Signed {
		if b := ex.byteOfWord(x); b != nil {
			return b
		}
	}
	return Mod(x, IntC(pow2(to.W)))
}

// byteOfWord: byte(w >> 8k) for a machine word w (at most 64 bits) is the k-th digit of w in base 256. The digits of
// each word are introduced once, as fresh bytes tied to the word by one linear fact, instead of div/mod terms.
func (ex *Exec) byteOfWord(x *Term) *Term {
	w, k := x, 0
	if x.op == "div" && x.args[1].IsConst() {
		d := x.args[1].val
		if d.Sign() <= 0 || new(big.Int).And(d, new(big.Int).Sub(d, bi(1))).Sign() != 0 || (d.BitLen()-1)%8 != 0 {
			return nil
		}
		w, k = x.args[0], (d.BitLen()-1)/8
	}
	uw := ex.upper(w)
	if w.IsConst() || uw == nil || uw.Cmp(pow2(64)) > 0 || k > 7 {
		return nil
	}
	if ex.wordBytesOf == nil {
		ex.wordBytesOf = map[*Term][]*Term{}
	}
	ds, ok := ex.wordBytesOf[w]
	if !ok {
		var parts []*Term
		for i := 0; i < 8; i++ {
			b := ex.freshWord("digit", u8t)
			ds = append(ds, b)
			parts = append(parts, Mul(IntC(pow2(8*i)), b))
		}
		ex.st.addFact(Eq(Add(parts...), w), "base-256 digits of a word")
		ex.wordBytesOf[w] = ds
	}
	return ds[k]
}

// tzBits: a lower bound on the number of trailing zero bits of the (non-negative) integer term t.
func tzBits(t *Term, depth int) int {
	if depth > 6 {
		return 0
	}
	switch {
	case t.IsConst():
		if t.val.Sign() == 0 {
			return 1 << 20
		}
		return int(t.val.TrailingZeroBits())
	case t.op == "*":
		n := 0
		for _, a := range t.args {
			n += tzBits(a, depth+1)
		}
		return n
	case t.op == "+":
		n := 1 << 20
		for _, a := range t.args {
			if k := tzBits(a, depth+1); k < n {
				n = k
			}
		}
		return n
	case t.op == "mod" && t.args[1].IsConst() && t.args[1].val.Sign() > 0:
		// x mod 2^w keeps the low w bits
		if m := t.args[1].val; new(big.Int).And(m, new(big.Int).Sub(m, bi(1))).Sign() == 0 {
			k := tzBits(t.args[0], depth+1)
			if w := m.BitLen() - 1; k > w {
				k = w
			}
			return k
		}
	case t.op == "ite":
		a, b := tzBits(t.args[1], depth+1), tzBits(t.args[2], depth+1)
		if a < b {
			return a
		}
		return b
	}
	return 0
}

// bitSpecial handles the bit-operator shapes that integer mode can treat exactly: a mask operand that is
// if-then-else of all-zeros / all-ones (what -flag and flag*0xff..ff produce), and operands with disjoint bits
// (x<<k | small, the byte-assembly idiom).
func (ex *Exec) bitSpecial(op token.Token, x, y *Term, mt mtype) *Term {
	if mt.Signed || mt.W == 0 {
		return nil
	}
	ones := new(big.Int).Sub(pow2(mt.W), bi(1))
	isMask := func(t *Term) bool {
		if t.op != "ite" || !t.args[1].IsConst() || !t.args[2].IsConst() {
			return false
		}
		for _, k := range []*big.Int{t.args[1].val, t.args[2].val} {
			if k.Sign() != 0 && k.Cmp(ones) != 0 {
				return false
			}
		}
		return true
	}
	// value of (v op k) for k in {0, ones}; maskLeft: the mask is the left operand
	withConst := func(v *Term, k *big.Int, maskLeft bool) *Term {
		zero := k.Sign() == 0
		switch op {
		case token.AND:
			if zero {
				return IntI(0)
			}
			return v
		case token.OR:
			if zero {
				return v
			}
			return IntC(ones)
		case token.XOR:
			if zero {
				return v
			}
			return Sub(IntC(ones), v)
		case token.AND_NOT:
			if maskLeft { // k &^ v
				if zero {
					return IntI(0)
				}
				return Sub(IntC(ones), v)
			}
			if zero { // v &^ 0
				return v
			}
			return IntI(0)
		}
		return nil
	}
	if isMask(y) {
		return Ite(y.args[0], withConst(x, y.args[1].val, false), withConst(x, y.args[2].val, false))
	}
	if isMask(x) {
		return Ite(x.args[0], withConst(y, x.args[1].val, true), withConst(y, x.args[2].val, true))
	}
	// disjoint bits
	if op == token.OR || op == token.XOR || op == token.AND {
		for _, pr := range [][2]*Term{{x, y}, {y, x}} {
			hi, lo := pr[0], pr[1]
			ul := ex.upper(lo)
			if ul == nil || ul.Sign() <= 0 {
				continue
			}
			need := new(big.Int).Sub(ul, bi(1)).BitLen()
			if hi.IsConst() && lo.IsConst() {
				continue
			}
			if tzBits(hi, 0) >= need {
				if uh := ex.upper(hi); uh == nil || uh.Cmp(pow2(mt.W)) > 0 {
					continue
				}
				if op == token.AND {
					return IntI(0)
				}
				return Add(hi, lo)
			}
		}
	}
	return nil
}
