package main

import (
	"fmt"
	"go/ast"
	"go/parser"
	"regexp"
	"strconv"
	"strings"
)

type Clause struct {
	Kind     string // requires ensures derives invariant
	Name     string
	Props    []string
	Expr     ast.Expr
	Text     string
	By       []ast.Expr // lemma applications
	Pos      string
	Internal bool // proved for the function itself, not exported to callers
}

type FuncContract struct {
	Pkg         *Pkg
	Key         string
	Mode        string
	Requires    []*Clause
	Ensures     []*Clause
	Derives     []*Clause
	PreLemmas   []*Clause
	Modifies    []ast.Expr
	Returns     []string // per result: param name, "fresh", "fresh:N" , "" (scalar)
	Nilable     map[string]bool
	NoAlias     bool
	Alias       [][]string // explicit alias groups to enumerate (optional)
	Uses        []ast.Expr
	Reveal      map[string]bool
	Lens        map[string][]int // slice param -> lengths to enumerate
	Panics      *Clause          // ensures_panics condition
	Pos         string
	Trusted     bool
	SchedExcept ast.Expr
	Loops       map[int]*LoopContract
	Props       []string
}

func (fc *FuncContract) QName() string { return fc.Pkg.Name + "." + fc.Key }

type LoopContract struct {
	Invariants []*Clause
	Modifies   []ast.Expr
	Uses       []ast.Expr
}

type Define struct {
	Name   string
	Params []string
	Body   ast.Expr
	Text   string
}

type Lemma struct {
	Name   string
	Params []string
	Body   ast.Expr
	Text   string
	Lean   string
	Status string // lean-proved / assumed / smt
}

type Declare struct {
	Name string
	Args []Sort
	Ret  Sort
}

type Specs struct {
	Funcs    map[string]*FuncContract // qname
	Consts   map[string]*Term
	Defines  map[string]*Define
	Lemmas   map[string]*Lemma
	Declares map[string]*Declare
	Assumes  []string
	PropTags []propTag
}

type propTag struct {
	props []string
	re    *regexp.Regexp
}

var clauseHead = regexp.MustCompile(`^(requires|ensures|proves|derives|invariant|ensures_panics|prelemma)\s+(?:([A-Za-z0-9_.-]+)\s*(?:\[([A-Z0-9, ]*)\])?\s*:\s+)?(.*)$`)

var lemmaHead = regexp.MustCompile(`^(\w+)\(([^)]*)\)\s*(?:\{lean:\s*([^}]*)\})?\s*:\s*(.*)$`)

func parseSort(s string) Sort {
	switch strings.TrimSpace(s) {
	case "Int":
		return SInt
	case "Bool":
		return SBool
	case "G":
		return SG
	case "Str":
		return SStr
	case "F":
		return SF
	case "Fn":
		return SN
	}
	panic("unknown sort " + s)
}

func parseExprAt(text, pos string) ast.Expr {
	e, err := parser.ParseExpr(text)
	if err != nil {
		panic(engineError{fmt.Sprintf("%s: cannot parse spec expression %q: %v", pos, text, err)})
	}
	return e
}

func ParseSpecs(prog *Program) *Specs {
	sp := &Specs{Funcs: map[string]*FuncContract{}, Consts: map[string]*Term{}, Defines: map[string]*Define{},
		Lemmas: map[string]*Lemma{}, Declares: map[string]*Declare{}}
	var cur *FuncContract
	var curLoop *LoopContract
	// join continuation lines: a line starting with "..." continues the previous one
	var lines []contractLine
	for _, l := range prog.Contract {
		t := strings.TrimSpace(l.text)
		if strings.HasPrefix(t, "...") && len(lines) > 0 {
			lines[len(lines)-1].text += " " + strings.TrimSpace(strings.TrimPrefix(t, "..."))
			continue
		}
		lines = append(lines, contractLine{l.pkg, t, l.pos})
	}
	for _, l := range lines {
		t := l.text
		if t == "" || strings.HasPrefix(t, "#") {
			continue
		}
		word := t
		rest := ""
		if i := strings.IndexAny(t, " \t"); i > 0 {
			word, rest = t[:i], strings.TrimSpace(t[i+1:])
		}
		switch word {
		case "const":
			i := strings.Index(rest, "=")
			name := strings.TrimSpace(rest[:i])
			sp.Consts[name] = IntC(bigStr(strings.TrimSpace(rest[i+1:])))
		case "declare":
			// declare name(Int,Int) Int
			i := strings.Index(rest, "(")
			j := strings.LastIndex(rest, ")")
			d := &Declare{Name: strings.TrimSpace(rest[:i]), Ret: parseSort(rest[j+1:])}
			if strings.TrimSpace(rest[i+1:j]) != "" {
				for _, a := range strings.Split(rest[i+1:j], ",") {
					d.Args = append(d.Args, parseSort(a))
				}
			}
			sp.Declares[d.Name] = d
		case "define":
			i := strings.Index(rest, "(")
			j := strings.Index(rest, ")")
			k := strings.Index(rest, "=")
			d := &Define{Name: strings.TrimSpace(rest[:i]), Text: rest}
			for _, p := range strings.Split(rest[i+1:j], ",") {
				if p = strings.TrimSpace(p); p != "" {
					d.Params = append(d.Params, p)
				}
			}
			d.Body = parseExprAt(strings.TrimSpace(rest[k+1:]), l.pos)
			sp.Defines[d.Name] = d
		case "lemma":
			m := lemmaHead.FindStringSubmatch(rest)
			if m == nil {
				panic(engineError{fmt.Sprintf("%s: malformed lemma %q", l.pos, rest)})
			}
			lm := &Lemma{Name: m[1], Text: rest, Status: "assumed", Lean: strings.TrimSpace(m[3])}
			for _, p := range strings.Split(m[2], ",") {
				if p = strings.TrimSpace(p); p != "" {
					lm.Params = append(lm.Params, p)
				}
			}
			lm.Body = parseExprAt(strings.TrimSpace(m[4]), l.pos)
			sp.Lemmas[lm.Name] = lm
		case "func":
			key := strings.TrimSpace(rest)
			cur = &FuncContract{Pkg: l.pkg, Key: key, Mode: "int", Nilable: map[string]bool{}, Reveal: map[string]bool{},
				Lens: map[string][]int{}, Pos: l.pos, Loops: map[int]*LoopContract{}}
			curLoop = nil
			if _, ok := l.pkg.Funcs[key]; !ok {
				panic(engineError{fmt.Sprintf("%s: contract for unknown function %s.%s", l.pos, l.pkg.Name, key)})
			}
			sp.Funcs[cur.QName()] = cur
		case "loop":
			n, _ := strconv.Atoi(strings.TrimSpace(rest))
			curLoop = &LoopContract{}
			cur.Loops[n] = curLoop
		case "mode":
			cur.Mode = rest
		case "trusted":
			cur.Trusted = true
		case "sched_except":
			cur.SchedExcept = parseExprAt(rest, l.pos)
		case "props":
			for _, p := range strings.Split(rest, ",") {
				cur.Props = append(cur.Props, strings.TrimSpace(p))
			}
		case "modifies":
			for _, p := range splitTop(rest) {
				e := parseExprAt(p, l.pos)
				if curLoop != nil {
					curLoop.Modifies = append(curLoop.Modifies, e)
				} else {
					cur.Modifies = append(cur.Modifies, e)
				}
			}
		case "returns":
			for _, p := range strings.Split(rest, ",") {
				cur.Returns = append(cur.Returns, strings.TrimSpace(p))
			}
		case "nilable":
			for _, p := range strings.Split(rest, ",") {
				cur.Nilable[strings.TrimSpace(p)] = true
			}
		case "noalias":
			cur.NoAlias = true
		case "reveal":
			for _, p := range strings.Split(rest, ",") {
				cur.Reveal[strings.TrimSpace(p)] = true
			}
		case "lens", "vals":
			// lens data 0,1,33,65
			f := strings.Fields(rest)
			for _, p := range strings.Split(f[1], ",") {
				n, _ := strconv.Atoi(p)
				if p == "*" {
					n = -1
				}
				if p == "nil" {
					n = -2
				}
				cur.Lens[f[0]] = append(cur.Lens[f[0]], n)
			}
		case "uses":
			for _, p := range splitTop(rest) {
				e := parseExprAt(p, l.pos)
				if curLoop != nil {
					curLoop.Uses = append(curLoop.Uses, e)
				} else {
					cur.Uses = append(cur.Uses, e)
				}
			}
		case "proptag":
			// proptag C15, C16: <regexp on the qualified function name>
			i := strings.Index(rest, ":")
			var ps []string
			for _, p := range strings.Split(rest[:i], ",") {
				ps = append(ps, strings.TrimSpace(p))
			}
			sp.PropTags = append(sp.PropTags, propTag{ps, regexp.MustCompile(strings.TrimSpace(rest[i+1:]))})
		case "assume":
			sp.Assumes = append(sp.Assumes, rest)
		case "requires", "ensures", "proves", "derives", "invariant", "ensures_panics", "prelemma":
			m := clauseHead.FindStringSubmatch(t)
			if m == nil {
				panic(engineError{fmt.Sprintf("%s: malformed clause %q", l.pos, t)})
			}
			c := &Clause{Kind: m[1], Name: m[2], Pos: l.pos}
			if m[3] != "" {
				for _, p := range strings.Split(m[3], ",") {
					c.Props = append(c.Props, strings.TrimSpace(p))
				}
			}
			body := m[4]
			if i := strings.LastIndex(body, " by "); i >= 0 && c.Kind != "requires" {
				for _, p := range splitTop(body[i+4:]) {
					c.By = append(c.By, parseExprAt(p, l.pos))
				}
				body = body[:i]
			}
			c.Text = strings.TrimSpace(body)
			c.Expr = parseExprAt(c.Text, l.pos)
			switch c.Kind {
			case "requires":
				cur.Requires = append(cur.Requires, c)
			case "ensures", "proves":
				c.Internal = c.Kind == "proves"
				if c.Name == "" {
					c.Name = fmt.Sprintf("e%d", len(cur.Ensures)+1)
				}
				cur.Ensures = append(cur.Ensures, c)
			case "derives":
				if c.Name == "" {
					c.Name = fmt.Sprintf("d%d", len(cur.Derives)+1)
				}
				cur.Derives = append(cur.Derives, c)
			case "invariant":
				if c.Name == "" {
					c.Name = fmt.Sprintf("i%d", len(curLoop.Invariants)+1)
				}
				curLoop.Invariants = append(curLoop.Invariants, c)
			case "ensures_panics":
				cur.Panics = c
			case "prelemma":
				if c.Name == "" {
					c.Name = fmt.Sprintf("l%d", len(cur.PreLemmas)+1)
				}
				cur.PreLemmas = append(cur.PreLemmas, c)
			}
		default:
			panic(engineError{fmt.Sprintf("%s: unknown contract keyword %q", l.pos, word)})
		}
	}
	for _, pt := range sp.PropTags {
		for name, fc := range sp.Funcs {
			if pt.re.MatchString(name) {
				for _, p := range pt.props {
					if !contains(fc.Props, p) {
						fc.Props = append(fc.Props, p)
					}
				}
			}
		}
	}
	return sp
}

// splitTop splits on commas that are not nested in parentheses/brackets.
func splitTop(s string) []string {
	var out []string
	depth := 0
	start := 0
	for i, c := range s {
		switch c {
		case '(', '[', '{':
			depth++
		case ')', ']', '}':
			depth--
		case ',':
			if depth == 0 {
				out = append(out, strings.TrimSpace(s[start:i]))
				start = i + 1
			}
		}
	}
	if strings.TrimSpace(s[start:]) != "" {
		out = append(out, strings.TrimSpace(s[start:]))
	}
	return out
}
