package main

import (
	"go/ast"
	"go/token"
	"go/types"
	"math/big"
	"math/bits"
	"strings"
)

var u64t = machType(types.Typ[types.Uint64])
var u8t = machType(types.Typ[types.Uint8])

// callStd models functions outside the module (trusted models, see DESIGN section 3.8).
func (ex *Exec) callStd(full string, fobj *types.Func, args []Value, e *ast.CallExpr) Value {
	ex.usedModels[full] = true
	switch full {
	case "math/bits.Add64":
		x, y, c := args[0].(*Term), args[1].(*Term), args[2].(*Term)
		if ex.mode.BV {
			s := BVAdd(BVAdd(ZExt(x, 65), ZExt(y, 65)), ZExt(c, 65))
			return TupleV{Extract(s, 63, 0), ZExt(Extract(s, 64, 64), 64)}
		}
		ex.carryOK(c, e)
		sum := Add(x, y, c)
		if sum.IsConst() {
			q, r := new(big.Int).DivMod(sum.val, W64, new(big.Int))
			return TupleV{IntC(r), IntC(q)}
		}
		s := ex.freshWord("s", u64t)
		co := Fresh("c", SInt)
		ex.st.ranges[co] = bi(2)
		ex.st.addFact(Eq(Add(s, Mul(IntC(W64), co)), sum), "Add64@"+ex.where(e))
		ex.noteDiscard(e, s, co)
		return TupleV{s, co}
	case "math/bits.Sub64":
		x, y, b := args[0].(*Term), args[1].(*Term), args[2].(*Term)
		if ex.mode.BV {
			d := BVSub(BVSub(ZExt(x, 65), ZExt(y, 65)), ZExt(b, 65))
			return TupleV{Extract(d, 63, 0), ZExt(Extract(d, 64, 64), 64)}
		}
		ex.carryOK(b, e)
		diff := Sub(Sub(x, y), b)
		if diff.IsConst() {
			q, r := new(big.Int).DivMod(diff.val, W64, new(big.Int))
			return TupleV{IntC(r), IntC(new(big.Int).Neg(q))}
		}
		d := ex.freshWord("d", u64t)
		bo := Fresh("b", SInt)
		ex.st.ranges[bo] = bi(2)
		ex.st.addFact(Eq(Sub(d, Mul(IntC(W64), bo)), diff), "Sub64@"+ex.where(e))
		return TupleV{d, bo}
	case "math/bits.Mul64":
		x, y := args[0].(*Term), args[1].(*Term)
		if ex.mode.BV {
			p := BVMul(ZExt(x, 128), ZExt(y, 128))
			return TupleV{Extract(p, 127, 64), Extract(p, 63, 0)}
		}
		var prod *Term
		if x.IsConst() || y.IsConst() {
			prod = Mul(x, y)
		} else {
			prod = ex.prodAtom(x, y)
		}
		if prod.IsConst() {
			q, r := new(big.Int).DivMod(prod.val, W64, new(big.Int))
			return TupleV{IntC(q), IntC(r)}
		}
		hi := ex.freshWord("hi", u64t)
		lo := ex.freshWord("lo", u64t)
		ex.st.addFact(Eq(Add(Mul(IntC(W64), hi), lo), prod), "Mul64@"+ex.where(e))
		ex.noteMulDiscard(e, hi, lo)
		return TupleV{hi, lo}
	case "(encoding/binary.bigEndian).Uint64", "(encoding/binary.bigEndian).Uint32", "(encoding/binary.bigEndian).Uint16",
		"(encoding/binary.littleEndian).Uint64", "(encoding/binary.littleEndian).Uint32", "(encoding/binary.littleEndian).Uint16":
		n := binWidth(full)
		s := args[1].(SliceV)
		if s.Abs != nil || s.SymLen != nil {
			ex.unsupported("binary.%s of a slice of unknown length at %s", full, ex.where(e))
		}
		if s.Len < n {
			ex.oblige("safety", "binary.Uint@"+ex.where(e), BoolC(false), "short slice")
			panic(pathEnd{"short slice"})
		}
		bs := make([]*Term, n)
		for i := range bs {
			j := i
			if strings.Contains(full, "littleEndian") {
				j = n - 1 - i
			}
			bs[i] = ex.resolve(s.Obj.Cells[s.Off+j]).(*Term)
		}
		if ex.mode.BV {
			t := bs[0]
			for _, b := range bs[1:] {
				t = Concat(t, b)
			}
			return t
		}
		var parts []*Term
		for i, b := range bs {
			parts = append(parts, Mul(IntC(pow2(8*(n-1-i))), b))
		}
		return Add(parts...)
	case "(encoding/binary.bigEndian).PutUint64", "(encoding/binary.bigEndian).PutUint32", "(encoding/binary.bigEndian).PutUint16",
		"(encoding/binary.littleEndian).PutUint64", "(encoding/binary.littleEndian).PutUint32", "(encoding/binary.littleEndian).PutUint16":
		n := binWidth(full)
		s := args[1].(SliceV)
		v := args[2].(*Term)
		if s.Abs != nil || s.SymLen != nil {
			ex.unsupported("binary.%s into a slice of unknown length at %s", full, ex.where(e))
		}
		if s.Len < n {
			ex.oblige("safety", "BigEndian.Put@"+ex.where(e), BoolC(false), "short slice")
			panic(pathEnd{"short slice"})
		}
		bs := ex.wordBytes(v, n, e)
		for i := 0; i < n; i++ {
			j := i
			if strings.Contains(full, "littleEndian") {
				j = n - 1 - i
			}
			s.Obj.Cells[s.Off+j] = bs[i]
		}
		ex.noteWrite(s.Obj, s.Off, n)
		return nil
	case "(encoding/binary.bigEndian).AppendUint64", "(encoding/binary.bigEndian).AppendUint32", "(encoding/binary.bigEndian).AppendUint16",
		"(encoding/binary.littleEndian).AppendUint64", "(encoding/binary.littleEndian).AppendUint32", "(encoding/binary.littleEndian).AppendUint16":
		n := binWidth(full)
		s := args[1].(SliceV)
		v := args[2].(*Term)
		if s.Abs != nil || s.SymLen != nil {
			ex.unsupported("binary.%s onto a slice of unknown length at %s", full, ex.where(e))
		}
		bs := ex.wordBytes(v, n, e)
		add := make([]Value, n)
		for i := 0; i < n; i++ {
			j := i
			if strings.Contains(full, "littleEndian") {
				j = n - 1 - i
			}
			add[j] = bs[i]
		}
		return ex.appendConcrete(s, add, types.Typ[types.Uint8], e)
	case "math/bits.Len64", "math/bits.LeadingZeros64", "math/bits.TrailingZeros64", "math/bits.OnesCount64", "math/bits.ReverseBytes64":
		x := args[0].(*Term)
		name := full[len("math/bits."):]
		it := machType(types.Typ[types.Int])
		if x.IsConst() {
			v := x.val.Uint64()
			var r uint64
			switch name {
			case "Len64":
				r = uint64(bits.Len64(v))
			case "LeadingZeros64":
				r = uint64(bits.LeadingZeros64(v))
			case "TrailingZeros64":
				r = uint64(bits.TrailingZeros64(v))
			case "OnesCount64":
				r = uint64(bits.OnesCount64(v))
			case "ReverseBytes64":
				return ex.constOf(new(big.Int).SetUint64(bits.ReverseBytes64(v)), u64t)
			}
			return ex.constOf(new(big.Int).SetUint64(r), it)
		}
		if !ex.mode.BV {
			ex.unsupported("%s of a symbolic word outside bv mode at %s", full, ex.where(e))
		}
		bit := func(i int) *Term { return Eq(Extract(x, i, i), BVC(bi(1), 1)) }
		k := func(n int) *Term { return BVC(bi(int64(n)), 64) }
		switch name {
		case "Len64", "LeadingZeros64":
			r := k(0)
			if name == "LeadingZeros64" {
				r = k(64)
			}
			for i := 0; i < 64; i++ {
				v := i + 1
				if name == "LeadingZeros64" {
					v = 63 - i
				}
				r = Ite(bit(i), k(v), r)
			}
			return r
		case "TrailingZeros64":
			r := k(64)
			for i := 63; i >= 0; i-- {
				r = Ite(bit(i), k(i), r)
			}
			return r
		case "OnesCount64":
			r := k(0)
			for i := 0; i < 64; i++ {
				r = BVAdd(r, ZExt(Extract(x, i, i), 64))
			}
			return r
		default: // ReverseBytes64
			r := Extract(x, 7, 0)
			for i := 1; i < 8; i++ {
				r = Concat(r, Extract(x, 8*i+7, 8*i))
			}
			return r
		}
	case "math/bits.RotateLeft64":
		x, kk := args[0].(*Term), args[1].(*Term)
		if !kk.IsConst() {
			ex.unsupported("bits.RotateLeft64 by a symbolic amount at %s", ex.where(e))
		}
		n := int(new(big.Int).Mod(kk.val, bi(64)).Int64())
		if n == 0 {
			return x
		}
		c := func(v int) *Term { return ex.constOf(bi(int64(v)), u64t) }
		return ex.binop(token.OR, ex.binop(token.SHL, x, c(n), u64t, ex.where(e)), ex.binop(token.SHR, x, c(64-n), u64t, ex.where(e)), u64t, ex.where(e))
	case "crypto/subtle.ConstantTimeSelect":
		v, x, y := args[0].(*Term), args[1].(*Term), args[2].(*Term)
		it := machType(types.Typ[types.Int])
		one, zero := ex.constOf(bi(1), it), ex.constOf(bi(0), it)
		// documented: behaviour undefined unless v is 0 or 1
		ex.oblige("call", "ConstantTimeSelect#pre:v01@"+ex.where(e), Or(Eq(v, one), Eq(v, zero)), "")
		return Ite(Eq(v, one), x, y)
	case "crypto/subtle.ConstantTimeCopy":
		v := args[0].(*Term)
		d, s := args[1].(SliceV), args[2].(SliceV)
		it := machType(types.Typ[types.Int])
		one, zero := ex.constOf(bi(1), it), ex.constOf(bi(0), it)
		ex.oblige("call", "ConstantTimeCopy#pre:v01@"+ex.where(e), Or(Eq(v, one), Eq(v, zero)), "")
		if d.Len != s.Len {
			ex.oblige("safety", "ConstantTimeCopy#len@"+ex.where(e), BoolC(false), "slices of different length")
			panic(pathEnd{"ConstantTimeCopy length"})
		}
		for i := 0; i < d.Len; i++ {
			d.Obj.Cells[d.Off+i] = Ite(Eq(v, one), s.Obj.Cells[s.Off+i].(*Term), d.Obj.Cells[d.Off+i].(*Term))
		}
		ex.noteWrite(d.Obj, d.Off, d.Len)
		return nil
	}
	return ex.callStd2(full, fobj, args, e)
}

func binWidth(full string) int {
	switch {
	case strings.HasSuffix(full, "64"):
		return 8
	case strings.HasSuffix(full, "32"):
		return 4
	}
	return 2
}

// wordBytes returns the n big-endian bytes of the n-byte word v.
func (ex *Exec) wordBytes(v *Term, n int, e ast.Node) []*Term {
	out := make([]*Term, n)
	if !ex.mode.BV && !v.IsConst() && n > 2 {
		// byte decomposition: fresh bytes b_i in [0,256) with sum b_i*256^(n-1-i) == v mod 2^(8n) (unique)
		var parts []*Term
		for i := 0; i < n; i++ {
			out[i] = ex.freshWord("byte", u8t)
			parts = append(parts, Mul(IntC(pow2(8*(n-1-i))), out[i]))
		}
		val := v
		if ub := ex.upper(v); ub == nil || ub.Cmp(pow2(8*n)) > 0 {
			val = Mod(v, IntC(pow2(8*n)))
		}
		ex.st.addFact(Eq(Add(parts...), val), "PutUint@"+ex.where(e))
		return out
	}
	for i := 0; i < n; i++ {
		sh := 8 * (n - 1 - i)
		if ex.mode.BV {
			out[i] = Extract(v, sh+7, sh)
		} else {
			out[i] = Mod(Div(v, IntC(pow2(sh))), IntI(256))
		}
	}
	return out
}

func (ex *Exec) carryOK(c *Term, e ast.Node) {
	if c.IsConst() && c.val.Cmp(bi(1)) <= 0 {
		return
	}
	if ub := ex.upper(c); ub != nil && ub.Cmp(bi(2)) <= 0 {
		return
	}
	ex.oblige("call", "bits.carry01@"+ex.where(e), Le(c, IntI(1)), "carry/borrow input must be 0 or 1")
}

// prodAtom returns the opaque atom standing for the product of two symbolic words.
func (ex *Exec) prodAtom(x, y *Term) *Term {
	if x.id > y.id {
		x, y = y, x
	}
	key := [2]*Term{x, y}
	if a, ok := ex.atoms[key]; ok {
		return a
	}
	a := Fresh("P", SInt)
	ux, uy := ex.upper(x), ex.upper(y)
	if ux == nil || uy == nil {
		ex.unsupported("product of unbounded terms")
	}
	ub := new(big.Int).Mul(new(big.Int).Sub(ux, bi(1)), new(big.Int).Sub(uy, bi(1)))
	ex.st.ranges[a] = ub.Add(ub, bi(1))
	ex.atoms[key] = a
	ex.atomList = append(ex.atomList, prodAtomRec{a, x, y})
	return a
}

type prodAtomRec struct{ atom, x, y *Term }

// noteDiscard registers speculative "discarded result is zero" lemmas for Add64 (staged mode).
func (ex *Exec) noteDiscard(e *ast.CallExpr, s, c *Term) {
	par := ex.curAssign
	if par == nil || len(par.Lhs) != 2 || len(par.Rhs) != 1 || par.Rhs[0] != ast.Expr(e) {
		return
	}
	if id, ok := par.Lhs[0].(*ast.Ident); ok && id.Name == "_" {
		ex.st.spec = append(ex.st.spec, SpecLemma{Eq(s, IntI(0)), len(ex.st.facts), "dropzero:sum@" + ex.where(e)})
	}
	if id, ok := par.Lhs[1].(*ast.Ident); ok && id.Name == "_" {
		ex.st.spec = append(ex.st.spec, SpecLemma{Eq(c, IntI(0)), len(ex.st.facts), "dropzero:carry@" + ex.where(e)})
	}
}

func (ex *Exec) noteMulDiscard(e *ast.CallExpr, hi, lo *Term) {
	par := ex.curAssign
	if par == nil || len(par.Lhs) != 2 || len(par.Rhs) != 1 || par.Rhs[0] != ast.Expr(e) {
		return
	}
	if id, ok := par.Lhs[0].(*ast.Ident); ok && id.Name == "_" {
		ex.st.quot = append(ex.st.quot, lo) // Montgomery quotient word
	}
}
