package main

import (
	"encoding/json"
	"fmt"
	"go/ast"
	"os"
	"os/exec"
	"path/filepath"
	"sort"
	"strings"
	"time"
)

type FuncRun struct {
	Name   string
	Obs    []*Oblig
	Err    error
	Calls  []string
	Models []string
	Lemmas []string
	Globs  []string // package-level variables the function (with its inlined callees) reads
	// EstabOnly: in the cone only as an establisher of a representation invariant (invariant projections only)
	EstabOnly bool
}

func (v *Verifier) runFunc(name string) *FuncRun {
	fr := v.prog.Lookup(name)
	fc := v.specs.Funcs[name]
	r := &FuncRun{Name: name}
	if fr == nil || fc == nil {
		r.Err = fmt.Errorf("no function/contract %s", name)
		return r
	}
	obs, err := v.VerifyFunc(fr, fc)
	r.Obs, r.Err = obs, err
	if v.lastExec != nil && err == nil {
		for c := range v.lastExec.calledContracts {
			r.Calls = append(r.Calls, c)
		}
		for m := range v.lastExec.usedModels {
			r.Models = append(r.Models, m)
		}
		for l := range v.lastExec.usedLemmas {
			r.Lemmas = append(r.Lemmas, l)
		}
		for g := range v.lastExec.globalsRead {
			r.Globs = append(r.Globs, g)
		}
		sort.Strings(r.Calls)
	}
	return r
}

func (fc *FuncContract) hasProp(p string) bool {
	for _, q := range fc.Props {
		if q == p {
			return true
		}
	}
	for _, cs := range [][]*Clause{fc.Ensures, fc.Derives, fc.Requires} {
		for _, c := range cs {
			for _, q := range c.Props {
				if q == p {
					return true
				}
			}
		}
	}
	for _, l := range fc.Loops {
		for _, c := range l.Invariants {
			for _, q := range c.Props {
				if q == p {
					return true
				}
			}
		}
	}
	return false
}

// cone computes the functions whose obligations decide property p: the tagged functions and,
// transitively, every contracted function they call.
func (v *Verifier) cone(p string) (map[string]*FuncRun, []string) {
	runs := map[string]*FuncRun{}
	var roots, work []string
	for n, fc := range v.specs.Funcs {
		if fc.hasProp(p) {
			roots = append(roots, n)
		}
	}
	sort.Strings(roots)
	work = append(work, roots...)
	for len(work) > 0 {
		n := work[0]
		work = work[1:]
		if _, ok := runs[n]; ok {
			continue
		}
		r := v.runFunc(n)
		runs[n] = r
		for _, c := range r.Calls {
			if _, ok := runs[c]; !ok {
				work = append(work, c)
			}
		}
		// a package-level variable read here is assumed to hold its initial value: every function through which
		// code mentioning it is analysed joins the cone (its frame:global obligation becomes part of the property)
		for _, g := range r.Globs {
			for _, m := range v.contractedMentioners(g) {
				if _, ok := runs[m]; !ok {
					work = append(work, m)
				}
			}
		}
	}
	// representation invariants: the functions of the cone assume inv/wf3/wfs of their operands; whatever produces or
	// changes a value of those types must establish the invariant, or the assumption is empty. Every contracted
	// function of the root package with such a receiver or result that is not in the cone already joins it with the
	// invariant part of its postconditions only (its other obligations belong to the properties it is tagged with).
	relied := map[string]bool{}
	for n := range runs {
		if fc := v.specs.Funcs[n]; fc != nil {
			for t := range reliedInvariantTypes(fc) {
				relied[t] = true
			}
		}
	}
	if len(relied) > 0 {
		var names []string
		for n := range v.specs.Funcs {
			names = append(names, n)
		}
		sort.Strings(names)
		for _, n := range names {
			if _, in := runs[n]; in || !strings.HasPrefix(n, "secp256k1.") {
				continue
			}
			fr := v.prog.Lookup(n)
			if fr == nil || strings.HasPrefix(v.prog.Fset.Position(fr.Decl.Pos()).Filename, clientsDir) {
				continue
			}
			if !establishes(fr, relied) {
				continue
			}
			if v.invProjFor == nil {
				v.invProjFor = map[string]bool{}
			}
			v.invProjFor[n] = true
			r := v.runFunc(n)
			delete(v.invProjFor, n)
			if r.Err == nil {
				var keep []*Oblig
				for _, o := range r.Obs {
					if strings.HasSuffix(o.Name, "/inv") {
						keep = append(keep, o)
					}
				}
				if len(keep) == 0 {
					continue
				}
				r.Obs = keep
			}
			r.EstabOnly = true
			runs[n] = r
		}
	}
	return runs, roots
}

// establishes: fr has a receiver or a result of (pointer to) one of the relied types.
func establishes(fr *FuncRef, relied map[string]bool) bool {
	isT := func(e ast.Expr) bool {
		if s, ok := e.(*ast.StarExpr); ok {
			e = s.X
		}
		id, ok := e.(*ast.Ident)
		return ok && relied[id.Name]
	}
	if fr.Decl.Recv != nil {
		for _, f := range fr.Decl.Recv.List {
			if isT(f.Type) {
				return true
			}
		}
	}
	if fr.Decl.Type.Results != nil {
		for _, f := range fr.Decl.Type.Results.List {
			if isT(f.Type) {
				return true
			}
		}
	}
	return false
}

// globalsOf lists the package-level variables read inside a cone.
func globalsOf(runs map[string]*FuncRun) []string {
	seen := map[string]bool{}
	var out []string
	for _, r := range runs {
		for _, g := range r.Globs {
			if !seen[g] {
				seen[g] = true
				out = append(out, g)
			}
		}
	}
	sort.Strings(out)
	return out
}

type Baseline struct {
	Properties map[string][]string `json:"properties"`
}

type KnownFinding struct {
	Status     string   `json:"status"`
	Property   string   `json:"property"`
	Also       []string `json:"also"`
	Commit     string   `json:"commit"`
	Obligation string   `json:"obligation"`
	What       string   `json:"what_failed"`
}

func loadJSON(path string, into interface{}) error {
	b, err := os.ReadFile(path)
	if err != nil {
		return err
	}
	return json.Unmarshal(b, into)
}

var verifRoot = "/verif"

func cmdProp(args []string) int {
	if len(args) == 0 {
		fmt.Println("usage: vcheck prop Cxx [--tier quick|thorough] [--update-baseline]")
		return 2
	}
	prop := args[0]
	tier := os.Getenv("VERIF_TIER")
	if tier == "" {
		tier = "quick"
	}
	update := false
	for i := 1; i < len(args); i++ {
		switch args[i] {
		case "--tier":
			if i+1 < len(args) {
				tier = args[i+1]
				i++
			}
		case "--update-baseline":
			update = true
		}
	}
	seed := 0
	fmt.Sscanf(os.Getenv("VERIF_SEED"), "%d", &seed)
	t0 := time.Now()
	v, err := load()
	if err != nil {
		fmt.Println("ENGINE-ERROR:", err)
		return 2
	}
	v.schedMode = prop == "C19"
	v.replayTag = prop
	if custom, ok := customChecks[prop]; ok {
		return custom(v, prop, tier, seed, update)
	}
	if prop == "C16" {
		return v.propCheck(prop, tier, seed, update, t0, globalWriteScan)
	}
	rcAlt := 0
	if !update {
		// the properties hold for every build of the package (C17 says so explicitly): when the module's file set
		// depends on the build configuration, the cone is checked under each configuration that selects different files
		base := strings.Join(fileSet(repoRoot, defaultCfg), "\n")
		done := map[string]bool{base: true}
		for _, cfg := range altConfigs {
			fs := strings.Join(fileSet(repoRoot, cfg), "\n")
			if done[fs] {
				continue
			}
			done[fs] = true
			curCfg = cfg
			v2, err := load()
			if err != nil {
				fmt.Printf("VIOLATION property=%s replay=%s no-failing-input-found\n  the package cannot be analysed under build configuration %s: %v\n", prop, v.noteReplay(prop, "config:"+cfg.Name, err.Error()), cfg.Name, err)
				rcAlt = 1
				curCfg = defaultCfg
				continue
			}
			v2.replayTag, v2.cfgLabel = prop, cfg.Name
			fmt.Printf("-- build configuration %s selects a different set of files: checking it too\n", cfg.Name)
			if rc := v2.propCheck(prop, "quick", seed, false, t0, nil); rc > rcAlt {
				rcAlt = rc
			}
			v.altCfgs = append(v.altCfgs, cfg.Name)
			curCfg = defaultCfg
		}
	}
	rc := v.propCheck(prop, tier, seed, update, t0, nil)
	if rcAlt > rc {
		rc = rcAlt
	}
	return rc
}

// noteReplay writes a replay file that only carries a reason.
func (v *Verifier) noteReplay(prop, name, why string) string {
	dir := filepath.Join(verifRoot, "replays", prop)
	os.MkdirAll(dir, 0o755)
	path := filepath.Join(dir, sanitize(name)+".json")
	b, _ := json.MarshalIndent(map[string]interface{}{"property": prop, "obligation": name, "reason": why, "found_by": "none"}, "", " ")
	os.WriteFile(path, b, 0o644)
	return path
}

type extraCheck func(v *Verifier) []*ObResult

func (v *Verifier) propCheck(prop, tier string, seed int, update bool, t0 time.Time, extra extraCheck) int {
	timeout := 20
	all := false
	if tier == "thorough" {
		timeout, all = 60, true
	}
	runs, roots := v.cone(prop)
	if len(roots) == 0 && extra == nil {
		fmt.Printf("ENGINE-ERROR: no contract clause is tagged with %s\n", prop)
		return 2
	}
	var obs []*Oblig
	var names []string
	for n := range runs {
		names = append(names, n)
	}
	sort.Strings(names)
	var engineErrs []string
	for _, n := range names {
		r := runs[n]
		if r.Err != nil {
			engineErrs = append(engineErrs, r.Err.Error())
			continue
		}
		obs = append(obs, r.Obs...)
	}
	results := Discharge(obs, timeout, all)
	results = append(results, v.globalEscapeScan(prop, globalsOf(runs))...)
	if extra != nil {
		results = append(results, extra(v)...)
	}
	// disagreement between solvers is an engine error
	for _, o := range obs {
		sat, unsat := false, false
		for _, r := range o.All {
			if r.Result == "sat" {
				sat = true
			}
			if r.Result == "unsat" {
				unsat = true
			}
		}
		if sat && unsat {
			fmt.Printf("ENGINE-ERROR: solvers disagree on %s (%s)\n", o.Name, o.Sub)
			return 2
		}
	}
	resByName := map[string]*ObResult{}
	for _, r := range results {
		resByName[baselineName(r.Name)] = r
	}
	// baseline
	var bl Baseline
	loadJSON(filepath.Join(verifRoot, "baseline", "obligations.json"), &bl)
	if bl.Properties == nil {
		bl.Properties = map[string][]string{}
	}
	if update {
		var ns []string
		for _, r := range results {
			if r.Status == "discharged" {
				ns = append(ns, r.Name)
			}
		}
		sort.Strings(ns)
		bl.Properties[prop] = ns
		b, _ := json.MarshalIndent(bl, "", " ")
		os.MkdirAll(filepath.Join(verifRoot, "baseline"), 0o755)
		os.WriteFile(filepath.Join(verifRoot, "baseline", "obligations.json"), b, 0o644)
		writeSignatures(v)
	}
	type viol struct {
		name string
		why  string
		ob   *Oblig
	}
	var viols []viol
	for _, r := range results {
		if r.Status != "discharged" {
			why := "undischarged"
			if r.Worst != nil {
				why = r.Worst.Res.Result
			}
			viols = append(viols, viol{r.Name, why, r.Worst})
		}
	}
	erroredSeen := map[string]bool{}
	for _, n := range bl.Properties[prop] {
		if _, ok := resByName[n]; ok {
			continue
		}
		parts := strings.SplitN(n, "#", 2)
		fn, kind := parts[0], ""
		if len(parts) > 1 {
			kind = strings.SplitN(parts[1], ":", 2)[0]
		}
		r, inCone := runs[fn]
		if !inCone {
			continue // the function is no longer reachable from the property's roots: its obligations are moot
		}
		if r.EstabOnly && !strings.HasSuffix(n, "/inv") {
			continue // now in the cone only as an establisher: only its invariant projections are this property's business
		}
		if r.Err != nil {
			if !erroredSeen[fn] {
				erroredSeen[fn] = true
				viols = append(viols, viol{fn + "#*", "function left the verifiable subset, none of its obligations can be discharged: " + r.Err.Error(), nil})
			}
			continue
		}
		switch kind {
		case "post", "derive", "loop", "frame", "prelemma", "panic":
			viols = append(viols, viol{n, "obligation of the delivered tree is no longer generated", nil})
		}
	}
	if len(bl.Properties[prop]) == 0 && len(engineErrs) > 0 {
		fmt.Println("ENGINE-ERROR:", strings.Join(engineErrs, "; "))
		return 2
	}
	// a function of the cone that cannot be analysed and has no baseline entry yet: no verdict is possible
	for _, n := range names {
		if r := runs[n]; r.Err != nil && !erroredSeen[n] && !r.EstabOnly {
			fmt.Println("ENGINE-ERROR:", r.Err)
			return 2
		}
	}
	// known findings
	var kf struct {
		Findings []KnownFinding `json:"findings"`
	}
	loadJSON(filepath.Join(verifRoot, "known_findings.json"), &kf)
	rc := 0
	nviol := 0
	for _, vi := range viols {
		known := false
		for _, f := range kf.Findings {
			if f.Status == "open" && f.Obligation == vi.name && (f.Property == prop || contains(f.Also, prop)) {
				fmt.Printf("KNOWN-FINDING: property=%s %s: %s\n", prop, f.Obligation, f.What)
				known = true
			}
		}
		if known {
			continue
		}
		nviol++
		rp, confirmed := v.writeReplay(prop, vi.name, vi.why, vi.ob, tier, seed)
		suffix := ""
		if !confirmed {
			suffix = " no-failing-input-found"
		}
		fmt.Printf("VIOLATION property=%s replay=%s%s\n", prop, rp, suffix)
		if v.cfgLabel != "" {
			fmt.Printf("  obligation %s [build configuration %s]: %s\n", vi.name, v.cfgLabel, vi.why)
		} else {
			fmt.Printf("  obligation %s: %s\n", vi.name, vi.why)
		}
		rc = 1
	}
	if tier == "thorough" && rc == 0 && os.Getenv("VERIF_REPO") == "" {
		v.mustFail = runMustFailCorpus(prop)
		for name, caught := range v.mustFail {
			if !caught {
				fmt.Printf("ENGINE-ERROR: must-fail change %s is not reported by the check of %s: the machinery has a hole\n", name, prop)
				rc = 2
			}
		}
	}
	if (prop == "C08" || prop == "C11" || prop == "C09") && os.Getenv("VERIF_REPO") == "" {
		n, bad, first := specVectors(v)
		v.specCheck = map[string]interface{}{"what": "the contract-level specification (expand_message_xmd, hash_to_field, SSWU, isogeny, group law) evaluated by the concrete evaluator on the RFC 9380 vectors of /repo/tests/h2c, without running the library", "vectors": n, "mismatches": bad}
		if bad > 0 {
			fmt.Println("ENGINE-ERROR: the specification in the contract files disagrees with an RFC 9380 test vector:", first)
			rc = 2
		}
	}
	if tier == "thorough" && os.Getenv("VERIF_REPO") == "" && (prop == "C06" || prop == "C08" || prop == "C12" || prop == "C15") {
		// the conformance programs guard the machinery, not one property: they run with the thorough checks of the
		// four properties whose cones reach most of the models (and any time through `vcheck stdmodels`)
		rep, bad := v.stdModelConformance(100, int64(seed)+3)
		v.stdConf = rep
		for _, b := range bad {
			fmt.Println("ENGINE-ERROR: standard-library model conformance:", b)
			rc = 2
		}
	}
	if tier == "thorough" && os.Getenv("VERIF_REPO") == "" {
		var sw []sweepResult
		tot, fl := 0, 0
		for _, n := range roots {
			r := v.sweepFunc(n, 150, int64(seed)+11, 2)
			sw = append(sw, r)
			tot += r.Runs
			fl += r.False
			if r.False > 0 {
				fmt.Printf("ENGINE-ERROR: contract sweep: a clause of %s that was proved evaluates to false on the real code: %s\n", n, truncate(r.Witness, 800))
				rc = 2
			}
		}
		v.sweep = map[string]interface{}{"label": "bounded (not counted in obligations/discharged)",
			"what": "the real functions tagged with this property run on boundary-biased vectors through the overlay harness; every contract clause evaluated on the observed values",
			"runs": tot, "false_clauses": fl, "functions": sw}
	}
	if tier == "thorough" && prop == "C08" && os.Getenv("VERIF_REPO") == "" {
		e, nt, f, w := testIsoHom(v, 2000, int64(seed)+1)
		v.bounded = map[string]interface{}{"label": "bounded (not counted in obligations/discharged)",
			"what":            "the assumed lemma iso_hom_chord evaluated with the concrete evaluator on pairs of points of E' obtained as SSWU images of random field elements",
			"pairs_evaluated": e, "pairs_with_hypotheses_true": nt, "false": f, "witness": w}
		if f > 0 {
			fmt.Println("ENGINE-ERROR: the assumed lemma iso_hom_chord is false on a concrete pair:", w)
			rc = 2
		}
	}
	v.writeEvidence(prop, tier, seed, runs, names, results, engineErrs, nviol, time.Since(t0).Seconds())
	nd := 0
	for _, r := range results {
		if r.Status == "discharged" {
			nd++
		}
	}
	fmt.Printf("%s [%s]: %d functions under contract, %d obligations, %d discharged, %d violations, %.1fs\n",
		prop, tier, len(names), len(results), nd, nviol, time.Since(t0).Seconds())
	return rc
}

func contains(xs []string, x string) bool {
	for _, y := range xs {
		if y == x {
			return true
		}
	}
	return false
}

var customChecks = map[string]func(v *Verifier, prop, tier string, seed int, update bool) int{}

func (v *Verifier) writeEvidence(prop, tier string, seed int, runs map[string]*FuncRun, names []string, results []*ObResult, engineErrs []string, nviol int, wall float64) {
	if os.Getenv("VERIF_NOEVIDENCE") != "" || v.cfgLabel != "" {
		return
	}
	nd := 0
	solverTime := 0.0
	bySolver := map[string]int{}
	var samples []map[string]interface{}
	lemmas := map[string]bool{}
	models := map[string]bool{}
	for _, n := range names {
		for _, l := range runs[n].Lemmas {
			lemmas[l] = true
		}
		for _, m := range runs[n].Models {
			models[m] = true
		}
	}
	subq := 0
	for _, r := range results {
		if r.Status == "discharged" {
			nd++
		}
		solverTime += r.Seconds
		subq += r.Subs
		for s, k := range r.Solvers {
			bySolver[s] += k
		}
		if len(samples) < 12 && r.Trivial < r.Subs {
			samples = append(samples, map[string]interface{}{"obligation": r.Name, "sub_queries": r.Subs, "status": r.Status, "solver_seconds": r.Seconds, "solvers": r.Solvers})
		}
	}
	if len(samples) == 0 {
		for _, r := range results {
			if len(samples) < 5 {
				samples = append(samples, map[string]interface{}{"obligation": r.Name, "sub_queries": r.Subs, "status": r.Status})
			}
		}
	}
	var trusted []string
	trusted = append(trusted, "VC generator (Go subset semantics, memory model with enumerated aliasing/nil/length cases; DESIGN.md 3.2-3.5)",
		"solvers z3 4.8.12 / z3 5.1.0 / cvc5 1.0 (raced; thorough runs all three and rejects disagreement)")
	var ls []string
	for l := range lemmas {
		lm := v.specs.Lemmas[l]
		ls = append(ls, fmt.Sprintf("lemma %s [%s] lean=%s", l, lemmaStatus(lm), lm.Lean))
	}
	sort.Strings(ls)
	trusted = append(trusted, ls...)
	var ms []string
	for m := range models {
		ms = append(ms, "stdlib model "+m)
	}
	sort.Strings(ms)
	trusted = append(trusted, ms...)
	assumptions := []string{
		"int/uint are 64-bit; memory exhaustion, timing and the scheduler are not modelled",
		"pointer parameters alias only as whole objects of the same underlying type (no unsafe in callers); nested pointer fields are not aliased",
		"lemmas marked 'assumed' are used without a machine-checked proof; 'lean-proved' ones are checked by Lean 4 + Mathlib (lemmas/build.sh)",
		"unsigned machine words are modelled exactly (bit-vectors, or integers with explicit wrap variables); values of Go type int (lengths, indices, loop counters, 0/1 flags) are treated as mathematical integers, with a side obligation at every unsigned-to-int conversion",
		"byte strings of unknown length are an uninterpreted sort with extensionality; SHA-256 is an uninterpreted function of the absorbed string",
	}
	if gs := globalsOf(runs); len(gs) > 0 {
		assumptions = append(assumptions, "package-level variables read in this cone ("+strings.Join(gs, ", ")+") are taken at their initial values; the obligations that justify it are part of this check: frame:global of every function that mentions them (those functions join the cone), globals:no-escape, and (C16) globals:never-assigned; package initialisation order and init() functions are not modelled")
	}
	for _, a := range v.specs.Assumes {
		if strings.HasPrefix(a, "hash_no_x_collision") && !contains(names, "secp256k1.HashToGroup") {
			continue
		}
		assumptions = append(assumptions, "contract assumption: "+a)
	}
	for _, e := range engineErrs {
		assumptions = append(assumptions, "ENGINE-ERROR in cone: "+e)
	}
	for _, rn := range v.renameNotes {
		assumptions = append(assumptions, "contract adapted to renamed parameters/locals (pure renaming with respect to baseline/signatures.json): "+rn)
	}
	ev := map[string]interface{}{
		"property_id": prop, "tier": tier, "seed": seed, "level": "proof", "wall_s": wall, "violations": nviol,
		"coverage": map[string]interface{}{
			"obligations": len(results), "discharged": nd, "sub_queries": subq,
			"checker_cmd":  fmt.Sprintf("bin/vcheck prop %s --tier %s", prop, tier),
			"trusted_base": trusted, "samples": samples,
			"functions_under_contract": names, "solver_seconds": solverTime, "queries_by_solver": bySolver,
			"explanation": "every obligation is a set of SMT queries (one per aliasing/nil/length case and path) generated from /repo's current source; 'discharged' means every sub-query was unsat",
		},
		"assumptions": assumptions,
	}
	{
		// the slowest single queries, to show the margin to the time-out
		rs := append([]*ObResult{}, results...)
		sort.Slice(rs, func(i, j int) bool { return rs[i].MaxSec > rs[j].MaxSec })
		var slow []map[string]interface{}
		for i := 0; i < len(rs) && i < 5; i++ {
			slow = append(slow, map[string]interface{}{"obligation": rs[i].Name, "slowest_sub_query_s": rs[i].MaxSec})
		}
		ev["coverage"].(map[string]interface{})["slowest_queries"] = slow
	}
	{
		var names []string
		for _, c := range altConfigs {
			names = append(names, c.Name)
		}
		ev["coverage"].(map[string]interface{})["build_configurations"] = map[string]interface{}{
			"analysed":          append([]string{defaultCfg.Name}, v.altCfgs...),
			"compared_file_set": names,
			"note":              "a configuration is analysed separately only when it selects a different set of non-test files than linux/amd64; on a tree without build constraints all configurations compile the same files",
		}
	}
	{
		var est []string
		for _, n := range names {
			if runs[n].EstabOnly {
				est = append(est, n)
			}
		}
		if len(est) > 0 {
			ev["coverage"].(map[string]interface{})["invariant_establishers"] = map[string]interface{}{
				"functions": est,
				"note":      "in the cone only because they produce or change values whose representation invariant (inv/wf3/wfs) the property's own functions assume; only the invariant part of their postconditions is an obligation of this property",
			}
		}
	}
	if v.specCheck != nil {
		ev["coverage"].(map[string]interface{})["spec_validation"] = v.specCheck
	}
	if v.sweep != nil {
		ev["coverage"].(map[string]interface{})["bounded_sweep"] = v.sweep
	}
	if v.stdConf != nil {
		ev["coverage"].(map[string]interface{})["stdlib_model_conformance"] = v.stdConf
	}
	if v.bounded != nil {
		ev["coverage"].(map[string]interface{})["bounded_support"] = v.bounded
	}
	if v.mustFail != nil {
		ev["coverage"].(map[string]interface{})["must_fail_corpus"] = v.mustFail
	}
	b, _ := json.MarshalIndent(ev, "", " ")
	os.MkdirAll(filepath.Join(verifRoot, "evidence"), 0o755)
	os.WriteFile(filepath.Join(verifRoot, "evidence", prop+".json"), b, 0o644)
}

func lemmaStatus(lm *Lemma) string { return lm.Status }

func (v *Verifier) writeReplay(prop, name, why string, o *Oblig, tier string, seed int) (string, bool) {
	dir := filepath.Join(verifRoot, "replays", prop)
	os.MkdirAll(dir, 0o755)
	path := filepath.Join(dir, sanitize(name)+".json")
	rep := map[string]interface{}{"property": prop, "obligation": name, "reason": why, "found_by": "none"}
	if v.cfgLabel != "" {
		path = filepath.Join(dir, sanitize(name+"@"+v.cfgLabel)+".json")
		rep["build_configuration"] = v.cfgLabel
	}
	confirmed := false
	if o == nil && strings.HasSuffix(name, "#*") {
		// the function could not be analysed: search for a failing input of its (unchanged) contract on the real code
		o = &Oblig{Name: name, Func: strings.TrimSuffix(name, "#*"), Info: "directed search against the contract of a function that left the verifiable subset",
			Res: SolverResult{Solver: "none", Result: "not analysable"}}
	}
	if o != nil {
		rep["function"] = o.Func
		rep["case"] = o.Sub
		rep["clause"] = o.Info
		rep["solver"] = map[string]interface{}{"name": o.Res.Solver, "result": o.Res.Result, "output": truncate(o.Res.Output, 4000)}
		if len(o.Res.Model) > 0 {
			rep["model"] = o.Res.Model
		}
		confirmed = v.tryReplay(prop, o, rep, tier, seed)
	}
	b, _ := json.MarshalIndent(rep, "", " ")
	os.WriteFile(path, b, 0o644)
	return path, confirmed
}

func truncate(s string, n int) string {
	if len(s) > n {
		return s[:n] + "..."
	}
	return s
}

// runMustFailCorpus applies every seeded change and reverted fix recorded for this property to a scratch copy of
// /repo (outside /repo and /verif, removed afterwards) and requires the quick check to report a violation.
func runMustFailCorpus(prop string) map[string]bool {
	res := map[string]bool{}
	var patches []string
	ms, _ := filepath.Glob(filepath.Join(verifRoot, "seeded", prop+"-*", "patch.diff"))
	patches = append(patches, ms...)
	var kf struct {
		Findings []struct {
			Property string   `json:"property"`
			Also     []string `json:"also"`
			Reverse  string   `json:"reverse_patch"`
		} `json:"findings"`
	}
	loadJSON(filepath.Join(verifRoot, "known_findings.json"), &kf)
	for _, f := range kf.Findings {
		if f.Reverse != "" && (f.Property == prop || contains(f.Also, prop)) {
			patches = append(patches, filepath.Join(verifRoot, f.Reverse))
		}
	}
	for _, p := range patches {
		name := filepath.Base(filepath.Dir(p))
		if strings.Contains(p, "reverse_fixes") {
			name = "revert-" + strings.TrimSuffix(filepath.Base(p), ".diff")
		}
		dir, err := os.MkdirTemp("", "verif-mustfail-")
		if err != nil {
			continue
		}
		cp := exec.Command("rsync", "-a", "--exclude", ".git", repoRoot+"/", dir+"/repo/")
		if err := cp.Run(); err != nil {
			os.RemoveAll(dir)
			continue
		}
		ap := exec.Command("patch", "-p1", "-s", "-i", p)
		ap.Dir = dir + "/repo"
		if err := ap.Run(); err != nil {
			os.RemoveAll(dir)
			res[name+" (patch does not apply any more)"] = true
			continue
		}
		self, _ := os.Executable()
		run := exec.Command(self, "prop", prop, "--tier", "quick")
		run.Env = append(os.Environ(), "VERIF_REPO="+dir+"/repo", "VERIF_NOEVIDENCE=1")
		out, _ := run.CombinedOutput()
		res[name] = strings.Contains(string(out), "VIOLATION property="+prop)
		os.RemoveAll(dir)
	}
	return res
}
