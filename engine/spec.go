package main

import (
	"encoding/hex"
	"fmt"
	"go/ast"
	"go/token"
	"go/types"
	"math/big"
	"strconv"
	"strings"
)

type SpecCtx struct {
	ex     *Exec
	vars   map[string]Value
	old    *Snapshot
	inOld  bool
	pkg    *Pkg
	assume bool
	reveal map[string]bool
	locals *Frame
}

func (c *SpecCtx) fail(format string, a ...interface{}) {
	panic(engineError{"spec: " + fmt.Sprintf(format, a...)})
}

func (c *SpecCtx) cell(o *Obj, i int) Value {
	if c.inOld && c.old != nil {
		if cs, ok := c.old.cells[o]; ok {
			if i >= len(cs) {
				c.fail("old cell out of range")
			}
			return cs[i]
		}
	}
	if i >= len(o.Cells) {
		c.fail("cell %d out of range of %s (%d cells)", i, o.Name, len(o.Cells))
	}
	return o.Cells[i]
}

func (c *SpecCtx) cellTerm(o *Obj, i int) *Term {
	t, ok := c.cell(o, i).(*Term)
	if !ok {
		c.fail("cell %d of %s is not scalar", i, o.Name)
	}
	return t
}

func (c *SpecCtx) bv() bool { return c.ex.mode.BV }

// toSpecInt widens machine values for spec arithmetic.
func (c *SpecCtx) unify(a, b *Term, arith bool) (*Term, *Term) {
	if a.sort.K == KInt && b.sort.K == KInt {
		return a, b
	}
	if a.sort.K == KF || b.sort.K == KF {
		if a.sort.K == KInt && a.IsConst() {
			a = FConst(a.val, b.sort)
		}
		if b.sort.K == KInt && b.IsConst() {
			b = FConst(b.val, a.sort)
		}
		return a, b
	}
	if a.sort.K == KBool || b.sort.K == KBool || a.sort.K == KU || b.sort.K == KU {
		return a, b
	}
	// bit-vectors involved
	w := 0
	if a.sort.K == KBV {
		w = a.sort.W
	}
	if b.sort.K == KBV && b.sort.W > w {
		w = b.sort.W
	}
	if arith && w < 320 {
		w = 320
	}
	var conv func(t *Term) *Term
	conv = func(t *Term) *Term {
		if t.sort.K == KInt {
			if t.op == "ite" {
				a, b := conv(t.args[1]), conv(t.args[2])
				if a.sort.W > w {
					w = a.sort.W
				}
				if b.sort.W > w {
					w = b.sort.W
				}
				return Ite(t.args[0], ZExt(a, w), ZExt(b, w))
			}
			if !t.IsConst() {
				c.fail("symbolic Int mixed with bit-vector in bv-mode spec: %s", t.Short())
			}
			if t.val.Sign() < 0 {
				c.fail("negative constant in bv-mode spec")
			}
			if t.val.BitLen() > w {
				w = t.val.BitLen()
			}
			return BVC(t.val, w)
		}
		return ZExt(t, w)
	}
	a2 := conv(a)
	b2 := conv(b)
	return ZExt(a2, w), ZExt(b2, w)
}

func (c *SpecCtx) term(e ast.Expr) *Term {
	v := c.eval(e)
	switch t := v.(type) {
	case *Term:
		return t
	case PtrV: // scalar place
		if leafCount(t.Typ) == 1 && t.Obj != nil {
			if x, ok := c.cell(t.Obj, t.Off).(*Term); ok {
				return x
			}
		}
	}
	c.fail("expected term, got %T for %s", v, exprStr(e))
	return nil
}

func exprStr(e ast.Expr) string { return types.ExprString(e) }

func (c *SpecCtx) place(e ast.Expr) PtrV {
	v := c.eval(e)
	p, ok := v.(PtrV)
	if !ok {
		c.fail("expected place/pointer, got %T for %s", v, exprStr(e))
	}
	if p.Obj == nil {
		c.fail("nil place in %s", exprStr(e))
	}
	return p
}

func (c *SpecCtx) limbs(p PtrV) []*Term {
	if leafCount(p.Typ) != 4 {
		c.fail("eval/fv of a place with %d leaves (type %s)", leafCount(p.Typ), p.Typ)
	}
	out := make([]*Term, 4)
	for i := range out {
		out[i] = c.cellTerm(p.Obj, p.Off+i)
	}
	return out
}

func (c *SpecCtx) evalLimbs(l []*Term) *Term {
	if c.bv() {
		return Concat(l[3], Concat(l[2], Concat(l[1], l[0])))
	}
	return Add(l[0], Mul(IntC(pow2(64)), l[1]), Mul(IntC(pow2(128)), l[2]), Mul(IntC(pow2(192)), l[3]))
}

func (c *SpecCtx) bytesOf(v Value) []*Term {
	switch s := v.(type) {
	case SliceV:
		if s.Abs != nil {
			c.fail("bytes of abstract slice")
		}
		out := make([]*Term, s.Len)
		for i := range out {
			out[i] = c.cellTerm(s.Obj, s.Off+i)
		}
		return out
	case PtrV:
		n := leafCount(s.Typ)
		out := make([]*Term, n)
		for i := range out {
			out[i] = c.cellTerm(s.Obj, s.Off+i)
		}
		return out
	case AggV:
		out := make([]*Term, len(s.Cells))
		for i := range out {
			out[i] = s.Cells[i].(*Term)
		}
		return out
	}
	c.fail("bytes of %T", v)
	return nil
}

func (c *SpecCtx) os2ip(bs []*Term) *Term {
	if len(bs) == 0 {
		if c.bv() {
			return BVC(bi(0), 8)
		}
		return IntI(0)
	}
	if c.bv() {
		t := bs[0]
		for _, b := range bs[1:] {
			t = Concat(t, b)
		}
		return t
	}
	var parts []*Term
	n := len(bs)
	for i, b := range bs {
		parts = append(parts, Mul(IntC(pow2(8*(n-1-i))), b))
	}
	return Add(parts...)
}

func (c *SpecCtx) child() *SpecCtx {
	n := *c
	n.vars = map[string]Value{}
	for k, v := range c.vars {
		n.vars[k] = v
	}
	return &n
}

func (c *SpecCtx) eval(e ast.Expr) Value {
	switch e := e.(type) {
	case *ast.ParenExpr:
		return c.eval(e.X)
	case *ast.BasicLit:
		if e.Kind == token.INT {
			return IntC(bigStr(e.Value))
		}
		if e.Kind == token.STRING {
			s, _ := strconv.Unquote(e.Value)
			return StrV{s}
		}
	case *ast.Ident:
		return c.ident(e.Name)
	case *ast.UnaryExpr:
		switch e.Op {
		case token.NOT:
			return Not(c.term(e.X))
		case token.SUB:
			x := c.term(e.X)
			if x.sort.K == KF {
				return FOp("fneg", x.sort, x)
			}
			return Neg(x)
		case token.AND:
			return c.eval(e.X) // places are pointers already
		}
	case *ast.StarExpr:
		v := c.eval(e.X)
		if p, ok := v.(PtrV); ok {
			if leafCount(p.Typ) == 1 {
				return c.cell(p.Obj, p.Off)
			}
			return p
		}
	case *ast.SelectorExpr:
		v := c.eval(e.X)
		p, ok := v.(PtrV)
		if !ok {
			c.fail("selector on %T in %s", v, exprStr(e))
		}
		if p.Obj == nil {
			c.fail("selector through nil pointer in %s", exprStr(e))
		}
		t := p.Typ
		if pt, ok := t.Underlying().(*types.Pointer); ok { // pointer stored in a place
			pv := c.cell(p.Obj, p.Off).(PtrV)
			p, t = pv, pt.Elem()
		}
		st, ok := t.Underlying().(*types.Struct)
		if !ok {
			c.fail("selector %s on non-struct %s", e.Sel.Name, t)
		}
		for i := 0; i < st.NumFields(); i++ {
			if st.Field(i).Name() == e.Sel.Name {
				q := PtrV{Obj: p.Obj, Off: p.Off + fieldOffset(st, i), Typ: st.Field(i).Type()}
				return c.derefScalar(q)
			}
		}
		c.fail("no field %s", e.Sel.Name)
	case *ast.IndexExpr:
		v := c.eval(e.X)
		idx := c.term(e.Index)
		switch p := v.(type) {
		case PtrV:
			at, ok := p.Typ.Underlying().(*types.Array)
			if !ok {
				c.fail("index of non-array place %s", p.Typ)
			}
			if p.Obj.Sym != nil {
				return c.ex.readSymSpec(p.Obj.Sym, idx)
			}
			if !idx.IsConst() {
				c.fail("symbolic index in spec on concrete array: %s", exprStr(e))
			}
			i := int(idx.val.Int64())
			es := leafCount(at.Elem())
			return c.derefScalar(PtrV{Obj: p.Obj, Off: p.Off + i*es, Typ: at.Elem()})
		case SliceV:
			if !idx.IsConst() {
				c.fail("symbolic index in spec on slice")
			}
			i := int(idx.val.Int64())
			if i >= p.Len {
				c.fail("spec index %d out of range (len %d) in %s", i, p.Len, exprStr(e))
			}
			return c.cell(p.Obj, p.Off+i)
		case AggV:
			if p.Sym != nil {
				return c.ex.readSymSpec(p.Sym, idx)
			}
			if !idx.IsConst() {
				c.fail("symbolic index on aggregate value")
			}
			return p.Cells[int(idx.val.Int64())]
		}
		c.fail("index of %T", v)
	case *ast.SliceExpr:
		v := c.eval(e.X)
		lo, hi := 0, -1
		if e.Low != nil {
			lo = int(c.term(e.Low).val.Int64())
		}
		if e.High != nil {
			hi = int(c.term(e.High).val.Int64())
		}
		switch s := v.(type) {
		case SliceV:
			if hi < 0 {
				hi = s.Len
			}
			return SliceV{Obj: s.Obj, Off: s.Off + lo, Len: hi - lo, Cap: s.Cap - lo, Elem: s.Elem}
		case PtrV:
			at := s.Typ.Underlying().(*types.Array)
			if hi < 0 {
				hi = int(at.Len())
			}
			return SliceV{Obj: s.Obj, Off: s.Off + lo, Len: hi - lo, Cap: int(at.Len()) - lo, Elem: at.Elem()}
		}
		c.fail("slice of %T", v)
	case *ast.BinaryExpr:
		return c.binary(e)
	case *ast.CallExpr:
		return c.call(e)
	}
	c.fail("unsupported spec expression %s (%T)", exprStr(e), e)
	return nil
}

func (c *SpecCtx) derefScalar(q PtrV) Value {
	switch q.Typ.Underlying().(type) {
	case *types.Array, *types.Struct:
		return q
	}
	return c.cell(q.Obj, q.Off)
}

func (c *SpecCtx) ident(name string) Value {
	if v, ok := c.vars[name]; ok {
		if p, ok := v.(PtrV); ok && p.Obj != nil && p.Obj.Name == "byval:"+name {
			return p
		}
		return v
	}
	switch name {
	case "true":
		return BoolC(true)
	case "false":
		return BoolC(false)
	case "nil":
		return PtrV{}
	}
	if c.locals != nil {
		if o, ok := c.locals.byName[name]; ok {
			t := c.locals.types[name]
			switch t.Underlying().(type) {
			case *types.Array, *types.Struct:
				return PtrV{Obj: o, Typ: t}
			}
			return c.cell(o, 0)
		}
	}
	if t, ok := c.ex.specs.Consts[name]; ok {
		return t
	}
	if g, ok := c.ex.ghost[name]; ok {
		if c.inOld {
			if g0, ok := c.ex.ghostEntry[name]; ok {
				return g0
			}
		}
		return g
	}
	if c.pkg != nil {
		if o := c.pkg.Types.Scope().Lookup(name); o != nil {
			switch o := o.(type) {
			case *types.Var:
				if machType(o.Type()).Kind == "error" {
					return c.ex.errCode(o.Pkg().Name() + "." + o.Name())
				}
				obj := c.ex.lookupVar(o)
				return c.derefScalar(PtrV{Obj: obj, Typ: o.Type()})
			case *types.Const:
				if b, ok := constToBig(o.Val()); ok {
					return IntC(b)
				}
			}
		}
	}
	c.fail("unknown identifier %q", name)
	return nil
}

func (c *SpecCtx) binary(e *ast.BinaryExpr) Value {
	switch e.Op {
	case token.LAND:
		a := c.term(e.X)
		if a.IsFalse() {
			return a
		}
		return And(a, c.guarded(e.Y))
	case token.LOR:
		a := c.term(e.X)
		if a.IsTrue() {
			return a
		}
		return Or(a, c.guarded(e.Y))
	}
	xv, yv := c.eval(e.X), c.eval(e.Y)
	// pointer comparisons
	if px, ok := xv.(PtrV); ok {
		if py, ok := yv.(PtrV); ok && (e.Op == token.EQL || e.Op == token.NEQ) {
			if leafCount(px.Typ) == 1 && px.Obj != nil && py.Obj != nil {
				// scalar places: compare contents
			} else {
				eq := px.Obj == py.Obj && (px.Obj == nil || px.Off == py.Off)
				if e.Op == token.NEQ {
					eq = !eq
				}
				return BoolC(eq)
			}
		}
	}
	x, y := c.asTerm(xv, e.X), c.asTerm(yv, e.Y)
	switch e.Op {
	case token.EQL, token.NEQ:
		a, b := c.unify(x, y, false)
		r := Eq(a, b)
		if e.Op == token.NEQ {
			r = Not(r)
		}
		return r
	case token.LSS, token.LEQ, token.GTR, token.GEQ:
		a, b := c.unify(x, y, false)
		if a.sort.K == KF {
			c.fail("order comparison on field elements: use fint()")
		}
		if e.Op == token.GTR || e.Op == token.GEQ {
			a, b = b, a
		}
		strict := e.Op == token.LSS || e.Op == token.GTR
		if a.sort.K == KBV {
			if strict {
				return BVUlt(a, b)
			}
			return BVUle(a, b)
		}
		if strict {
			return Lt(a, b)
		}
		return Le(a, b)
	case token.ADD, token.SUB, token.MUL:
		a, b := c.unify(x, y, true)
		if a.sort.K == KF {
			return FOp(map[token.Token]string{token.ADD: "fadd", token.SUB: "fsub", token.MUL: "fmul"}[e.Op], a.sort, a, b)
		}
		if a.sort.K == KBV {
			switch e.Op {
			case token.ADD:
				return BVAdd(a, b)
			case token.SUB:
				return BVSub(a, b)
			default:
				return BVMul(a, b)
			}
		}
		switch e.Op {
		case token.ADD:
			return Add(a, b)
		case token.SUB:
			return Sub(a, b)
		default:
			return Mul(a, b)
		}
	case token.SHL, token.SHR:
		if x.sort.K == KBV || y.sort.K == KBV {
			a, b := c.unify(x, y, true) // widened like + and *: the result is the mathematical one
			if e.Op == token.SHL {
				return BVShl(a, b)
			}
			return BVLshr(a, b)
		}
		if x.sort.K == KInt && y.sort.K == KInt && y.IsConst() && y.val.Sign() >= 0 && y.val.BitLen() < 16 {
			k := IntC(pow2(int(y.val.Int64())))
			if e.Op == token.SHL {
				return Mul(x, k)
			}
			return Div(x, k)
		}
		c.fail("shift with these operands in spec: %s", exprStr(e))
	case token.AND, token.OR, token.XOR, token.AND_NOT:
		if x.sort.K == KBV || y.sort.K == KBV {
			a, b := c.unify(x, y, false)
			switch e.Op {
			case token.AND:
				return BVAnd(a, b)
			case token.OR:
				return BVOr(a, b)
			case token.XOR:
				return BVXor(a, b)
			default:
				return BVAnd(a, BVNot(b))
			}
		}
		if x.sort.K == KInt && y.sort.K == KInt && e.Op != token.AND_NOT {
			return c.ex.binop(e.Op, x, y, u64t, "spec")
		}
		c.fail("bit operator %v on %s operands in spec", e.Op, x.sort)
	case token.QUO, token.REM:
		if x.sort.K != KInt || y.sort.K != KInt {
			c.fail("div/mod only on Int in spec: %s", exprStr(e))
		}
		if e.Op == token.QUO {
			return Div(x, y)
		}
		return Mod(x, y)
	}
	c.fail("unsupported spec operator %v", e.Op)
	return nil
}

func (c *SpecCtx) asTerm(v Value, e ast.Expr) *Term {
	switch t := v.(type) {
	case *Term:
		return t
	case PtrV:
		if t.Obj != nil && leafCount(t.Typ) == 1 {
			if x, ok := c.cell(t.Obj, t.Off).(*Term); ok {
				return x
			}
		}
	}
	c.fail("expected scalar term in %s, got %T", exprStr(e), v)
	return nil
}

func (c *SpecCtx) args(e *ast.CallExpr) []*Term {
	out := make([]*Term, len(e.Args))
	for i, a := range e.Args {
		out[i] = c.term(a)
	}
	return out
}

func fieldSortOf(name string) Sort {
	if name[0] == 'n' || name[0] == 's' {
		return SN
	}
	return SF
}

func (c *SpecCtx) call(e *ast.CallExpr) Value {
	fn, ok := e.Fun.(*ast.Ident)
	if !ok {
		c.fail("unsupported call %s", exprStr(e))
	}
	name := fn.Name
	ex := c.ex
	switch name {
	case "old":
		n := *c
		n.inOld = true
		return n.eval(e.Args[0])
	case "ite":
		cond := c.term(e.Args[0])
		a, b := c.unify(c.term(e.Args[1]), c.term(e.Args[2]), false)
		return Ite(cond, a, b)
	case "imp":
		a := c.term(e.Args[0])
		if a.IsFalse() {
			return BoolC(true)
		}
		return Implies(a, c.guarded(e.Args[1]))
	case "iff":
		return Eq(c.term(e.Args[0]), c.term(e.Args[1]))
	case "forall":
		v := e.Args[0].(*ast.Ident).Name
		lo, hi := c.term(e.Args[1]), c.term(e.Args[2])
		if !lo.IsConst() || !hi.IsConst() {
			c.fail("forall with symbolic bounds")
		}
		l, h := int(lo.val.Int64()), int(hi.val.Int64())
		if c.assume && h-l > 64 {
			cc := c.child()
			body := e.Args[3]
			ex.lazyForall = append(ex.lazyForall, lazyForall{lo, hi, func(idx *Term) *Term {
				cc.vars[v] = idx
				return cc.term(body)
			}})
			return BoolC(true)
		}
		var parts []*Term
		cc := c.child()
		for i := l; i < h; i++ {
			cc.vars[v] = IntI(int64(i))
			parts = append(parts, cc.term(e.Args[3]))
		}
		return And(parts...)
	case "evalr":
		// evalr(place, a, b) = sum_{a<=j<b} place[j] * W^(j-a)
		p := c.place(e.Args[0])
		a, b := int(c.term(e.Args[1]).val.Int64()), int(c.term(e.Args[2]).val.Int64())
		parts := []*Term{IntI(0)}
		for j := a; j < b; j++ {
			parts = append(parts, Mul(IntC(pow2(64*(j-a))), c.cellTerm(p.Obj, p.Off+j)))
		}
		return Add(parts...)
	case "eval":
		return c.evalLimbs(c.limbs(c.place(e.Args[0])))
	case "fv":
		return ex.FromM(SF, c.evalLimbs(c.limbs(c.place(e.Args[0]))))
	case "sv":
		return ex.FromM(SN, c.evalLimbs(c.limbs(c.place(e.Args[0]))))
	case "wf":
		return Lt(c.evalLimbs(c.limbs(c.place(e.Args[0]))), IntC(primeP))
	case "wfs":
		return Lt(c.evalLimbs(c.limbs(c.place(e.Args[0]))), IntC(primeN))
	case "fromM":
		return ex.FromM(SF, c.term(e.Args[0]))
	case "fromMn":
		return ex.FromM(SN, c.term(e.Args[0]))
	case "fofint":
		return FOfInt(SF, c.term(e.Args[0]))
	case "nofint":
		return FOfInt(SN, c.term(e.Args[0]))
	case "fint":
		x := c.term(e.Args[0])
		if x.sort.K != KF {
			c.fail("fint of a non-field value")
		}
		return FInt(x)
	case "F":
		return FConst(c.term(e.Args[0]).val, SF)
	case "Fn":
		return FConst(c.term(e.Args[0]).val, SN)
	case "fadd", "fsub", "fmul", "nadd", "nsub", "nmul":
		a := c.args(e)
		s := fieldSortOf(name)
		x, y := c.unify(a[0], a[1], false)
		return FOp("f"+name[1:], s, x, y)
	case "fneg", "nneg":
		return FOp("fneg", fieldSortOf(name), c.term(e.Args[0]))
	case "fpow", "npow":
		b := c.term(e.Args[0])
		x := c.term(e.Args[1])
		if x.IsConst() {
			return FPow(b, x.val)
		}
		return App("fpow_"+b.sort.Name, b.sort, b, x)
	case "os2ip":
		return c.os2ip(c.bytesOf(c.eval(e.Args[0])))
	case "pow2":
		x := c.term(e.Args[0])
		if !x.IsConst() {
			c.fail("pow2 of symbolic value")
		}
		if x.val.Sign() < 0 || x.val.Cmp(bi(8192)) > 0 {
			c.fail("pow2 argument out of range")
		}
		return IntC(pow2(int(x.val.Int64())))
	case "len":
		switch s := c.eval(e.Args[0]).(type) {
		case SliceV:
			if s.Abs != nil {
				return s.Abs.Len
			}
			if s.SymLen != nil {
				return s.SymLen
			}
			return IntI(int64(s.Len))
		case PtrV:
			if at, ok := s.Typ.Underlying().(*types.Array); ok {
				return IntI(at.Len())
			}
		}
		c.fail("len of unsupported value")
	case "str":
		v := c.eval(e.Args[0])
		switch x := v.(type) {
		case SliceV:
			if x.Abs != nil {
				return x.Abs.Str
			}
			return strOfCells(c.bytesOf(x))
		default:
			return strOfCells(c.bytesOf(v))
		}
	case "slen":
		return SLen(c.term(e.Args[0]))
	case "cat":
		return Cat(c.args(e)...)
	case "H":
		return HashOf(c.term(e.Args[0]))
	case "strxor":
		a := c.args(e)
		return StrXor(a[0], a[1])
	case "sub":
		a := c.args(e)
		return SubStr(a[0], int(a[1].val.Int64()), int(a[2].val.Int64()))
	case "lit":
		return StrLit([]byte(c.eval(e.Args[0]).(StrV).S))
	case "zeros":
		return StrLit(make([]byte, int(c.term(e.Args[0]).val.Int64())))
	case "byte":
		t := c.term(e.Args[0])
		if t.IsConst() {
			return StrLit([]byte{byte(t.val.Int64())})
		}
		return App("bytes1", SStr, t)
	case "i2osp2":
		t := c.term(e.Args[0])
		if t.IsConst() {
			v := t.val.Int64()
			return StrLit([]byte{byte(v >> 8), byte(v)})
		}
		return Cat(App("bytes1", SStr, Mod(Div(t, IntI(256)), IntI(256))), App("bytes1", SStr, Mod(t, IntI(256))))
	case "strcells":
		// strcells(S, n) or strcells(S, off, n): the bytes S[off .. off+n) as cells
		s := c.term(e.Args[0])
		off := 0
		n := int(c.term(e.Args[len(e.Args)-1]).val.Int64())
		if len(e.Args) == 3 {
			off = int(c.term(e.Args[1]).val.Int64())
		}
		cells := make([]Value, n)
		for i := range cells {
			cells[i] = At(s, off+i)
		}
		return AggV{Cells: cells}
	case "bitsum":
		// bitsum(arr, n) = sum_{i<n} arr[i] * 2^i
		v := c.eval(e.Args[0])
		n := int(c.term(e.Args[1]).val.Int64())
		parts := []*Term{IntI(0)}
		for i := 0; i < n; i++ {
			var b *Term
			switch a := v.(type) {
			case AggV:
				if a.Sym != nil {
					if concreteOn {
						c.fail("abstract array in concrete evaluation")
					}
					b = ex.readSym(a.Sym, IntI(int64(i)))
				} else {
					b = a.Cells[i].(*Term)
				}
			default:
				c.fail("bitsum of %T", v)
			}
			parts = append(parts, Mul(IntC(pow2(i)), b))
		}
		return Add(parts...)
	case "bitsumf":
		// bitsumf(v, n) = sum_{i<n} bit(v, i) * 2^i
		x := c.term(e.Args[0])
		n := int(c.term(e.Args[1]).val.Int64())
		parts := []*Term{IntI(0)}
		for i := 0; i < n; i++ {
			parts = append(parts, Mul(IntC(pow2(i)), App("bit", SInt, x, IntI(int64(i)))))
		}
		return Add(parts...)
	case "xor8":
		return Xor8(c.term(e.Args[0]), c.term(e.Args[1]))
	case "rndblock":
		return rndBlock(c.term(e.Args[0]))
	case "hexvalid":
		o, ok := c.eval(e.Args[0]).(OpaqueV)
		if !ok {
			c.fail("hexvalid of non-string")
		}
		if sv, known := ex.strVals[fmt.Sprint(o.Data)]; known && concreteOn {
			_, err := hex.DecodeString(sv)
			return BoolC(err == nil)
		}
		return ex.hexOf(fmt.Sprint(o.Data)).ok
	case "hexbytes":
		v := c.eval(e.Args[0])
		if o, ok := v.(OpaqueV); ok {
			if o.Kind == "hexstr" {
				return o.Data.(SliceV)
			}
			if sv, known := ex.strVals[fmt.Sprint(o.Data)]; known && concreteOn {
				bs, _ := hex.DecodeString(sv)
				bo := ex.newBytes("hexdec", len(bs), len(bs))
				for i, b := range bs {
					bo.Cells[i] = ex.constOf(bi(int64(b)), u8t)
				}
				if len(bs) == 0 {
					return SliceV{Elem: types.Typ[types.Uint8]}
				}
				return SliceV{Obj: bo, Len: len(bs), Cap: len(bs), Elem: types.Typ[types.Uint8]}
			}
			m := ex.hexOf(fmt.Sprint(o.Data))
			if m.bytes.Obj == nil {
				m.bytes = ex.lenClassSlice("hexdec("+fmt.Sprint(o.Data)+")", hexLens)
			}
			return m.bytes
		}
		c.fail("hexbytes of %T", v)
	case "fresh":
		switch s := c.eval(e.Args[0]).(type) {
		case SliceV:
			return BoolC(s.Obj != nil && !s.Obj.Pre)
		case PtrV:
			return BoolC(s.Obj != nil && !s.Obj.Pre)
		}
		c.fail("fresh of unsupported value")
	case "isnil":
		switch s := c.eval(e.Args[0]).(type) {
		case SliceV:
			return BoolC(s.Obj == nil && s.Abs == nil)
		case PtrV:
			return BoolC(s.Obj == nil)
		}
	case "same":
		a, b := c.eval(e.Args[0]).(PtrV), c.eval(e.Args[1]).(PtrV)
		return BoolC(a.Obj == b.Obj && a.Off == b.Off)
	case "unchanged":
		p := c.place(e.Args[0])
		var parts []*Term
		for i := 0; i < leafCount(p.Typ); i++ {
			cur, okc := p.Obj.Cells[p.Off+i].(*Term)
			var old Value = cur
			if c.old != nil {
				if cs, ok := c.old.cells[p.Obj]; ok {
					old = cs[p.Off+i]
				}
			}
			ot, oko := old.(*Term)
			if !okc || !oko {
				continue
			}
			parts = append(parts, Eq(cur, ot))
		}
		return And(parts...)
	case "bytes_eq":
		a, b := c.bytesOf(c.eval(e.Args[0])), c.bytesOf(c.eval(e.Args[1]))
		if len(a) != len(b) {
			return BoolC(false)
		}
		var parts []*Term
		for i := range a {
			parts = append(parts, Eq(a[i], b[i]))
		}
		return And(parts...)
	}
	if d, ok := ex.specs.Defines[name]; ok {
		if len(d.Params) != len(e.Args) {
			c.fail("define %s: arity", name)
		}
		cc := &SpecCtx{ex: ex, vars: map[string]Value{}, pkg: c.pkg, assume: c.assume, reveal: c.reveal, old: c.old, inOld: c.inOld}
		for i, p := range d.Params {
			cc.vars[p] = c.eval(e.Args[i])
		}
		return cc.eval(d.Body)
	}
	if d, ok := ex.specs.Declares[name]; ok {
		args := c.args(e)
		if len(args) != len(d.Args) {
			c.fail("declared function %s: arity", name)
		}
		for i := range args {
			if args[i].sort.K == KInt && args[i].IsConst() && d.Args[i].K == KF {
				args[i] = FConst(args[i].val, d.Args[i])
			}
			if args[i].sort != d.Args[i] {
				c.fail("declared function %s: argument %d has sort %s, want %s (%s)", name, i, args[i].sort.Key(), d.Args[i].Key(), exprStr(e))
			}
		}
		return App(name, d.Ret, args...)
	}
	if lm, ok := ex.specs.Lemmas[name]; ok {
		return ex.instLemma(lm, c, e.Args)
	}
	c.fail("unknown spec function %s", name)
	return nil
}

func (ex *Exec) instLemma(lm *Lemma, c *SpecCtx, args []ast.Expr) *Term {
	if len(lm.Params) != len(args) {
		c.fail("lemma %s: arity %d vs %d", lm.Name, len(lm.Params), len(args))
	}
	cc := &SpecCtx{ex: ex, vars: map[string]Value{}, pkg: c.pkg, old: c.old}
	for i, p := range lm.Params {
		cc.vars[p] = c.eval(args[i])
	}
	ex.usedLemmas[lm.Name] = true
	// lemmas whose parameter sort is not determined by their body (fint is overloaded on F and Fn)
	if want, ok := lemmaArgSort[lm.Name]; ok {
		for _, p := range lm.Params {
			if t, isT := cc.vars[p].(*Term); !isT || t.sort != want {
				c.fail("lemma %s applied to an argument of the wrong field sort", lm.Name)
			}
		}
	}
	return cc.term(lm.Body)
}

func (ex *Exec) readSymSpec(sa *SymArr, idx *Term) *Term {
	return App(sa.Name, sa.Elem, idx)
}

var _ = big.NewInt

// tryTerm evaluates a hint; hints that mention a nil parameter in this case are skipped.
func (c *SpecCtx) tryTerm(e ast.Expr) (t *Term) {
	defer func() {
		if r := recover(); r != nil {
			if ee, ok := r.(engineError); ok && (strings.Contains(ee.msg, "nil p") || strings.Contains(ee.msg, "out of range")) {
				t = BoolC(true)
				return
			}
			panic(r)
		}
	}()
	return c.term(e)
}

// guarded evaluates the right operand of a short-circuit connective. If it cannot be evaluated because it
// indexes beyond a slice of this length class, it is replaced by an unconstrained Boolean (the left operand is
// what excludes that case; an unknown is the conservative reading).
func (c *SpecCtx) guarded(e ast.Expr) (t *Term) {
	defer func() {
		if r := recover(); r != nil {
			if ee, ok := r.(engineError); ok && (strings.Contains(ee.msg, "out of range") || strings.Contains(ee.msg, "nil p")) {
				t = Fresh("unevaluable", SBool)
				return
			}
			panic(r)
		}
	}()
	return c.term(e)
}

var lemmaArgSort = map[string]Sort{"fint_range": SF, "nint_range": SN}
