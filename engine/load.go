package main

import (
	"fmt"
	"go/ast"
	"go/build"
	"go/importer"
	"go/parser"
	"go/token"
	"go/types"
	"os"
	"path/filepath"
	"sort"
	"strings"
)

const modPath = "github.com/bytemare/secp256k1"

var clientsDir = "/verif/clients"

type Pkg struct {
	Path  string
	Dir   string
	Name  string
	Files []*ast.File
	Types *types.Package
	Info  *types.Info
	Funcs map[string]*ast.FuncDecl // "Mul", "Element.Multiply"
}

type Program struct {
	Fset     *token.FileSet
	Pkgs     map[string]*Pkg // by import path
	Root     string
	Contract []contractLine // raw //@ lines from all packages (with pkg)
}

type contractLine struct {
	pkg  *Pkg
	text string
	pos  string
}

type chainImporter struct {
	prog *Program
	std  types.Importer
}

func (c *chainImporter) Import(path string) (*types.Package, error) {
	if p, ok := c.prog.Pkgs[path]; ok && p.Types != nil {
		return p.Types, nil
	}
	return c.std.Import(path)
}

// buildConfig is one build configuration under which the module's file set is determined.
type buildConfig struct {
	Name   string
	GOOS   string
	GOARCH string
	Tags   []string
}

var defaultCfg = buildConfig{Name: "linux/amd64", GOOS: "linux", GOARCH: "amd64"}

// altConfigs are the other configurations C17 ("every program, every configuration") looks at when the module's
// file set depends on the configuration.
var altConfigs = []buildConfig{
	{Name: "linux/amd64 -tags purego", GOOS: "linux", GOARCH: "amd64", Tags: []string{"purego"}},
	{Name: "linux/386", GOOS: "linux", GOARCH: "386"},
	{Name: "linux/arm64", GOOS: "linux", GOARCH: "arm64"},
	{Name: "windows/amd64", GOOS: "windows", GOARCH: "amd64"},
	{Name: "darwin/arm64", GOOS: "darwin", GOARCH: "arm64"},
	{Name: "js/wasm", GOOS: "js", GOARCH: "wasm"},
}

var curCfg = defaultCfg

func (c buildConfig) context() *build.Context {
	ctx := build.Default
	ctx.GOOS, ctx.GOARCH = c.GOOS, c.GOARCH
	ctx.CgoEnabled = false
	ctx.BuildTags = append([]string{"verif"}, c.Tags...)
	return &ctx
}

// fileIncluded applies the go command's rules (//go:build lines and _GOOS/_GOARCH file-name suffixes) for curCfg.
func fileIncluded(dir, name string) bool {
	ok, err := curCfg.context().MatchFile(dir, name)
	return err == nil && ok
}

// alwaysCompiled: the file is part of the package under the default and every alternative configuration.
func alwaysCompiled(path string) bool {
	dir, name := filepath.Dir(path), filepath.Base(path)
	for _, cfg := range append([]buildConfig{defaultCfg}, altConfigs...) {
		ctx := cfg.context()
		ctx.BuildTags = cfg.Tags
		if ok, err := ctx.MatchFile(dir, name); err != nil || !ok {
			return false
		}
	}
	return true
}

// fileSet lists the non-test Go files of the module's three packages that are compiled under cfg (contract files
// and lemma programs excluded).
func fileSet(root string, cfg buildConfig) []string {
	var out []string
	ctx := cfg.context()
	ctx.BuildTags = cfg.Tags
	for _, d := range []string{".", "internal/field", "internal/scalar"} {
		ents, _ := os.ReadDir(filepath.Join(root, d))
		for _, e := range ents {
			n := e.Name()
			if e.IsDir() || !strings.HasSuffix(n, ".go") || strings.HasSuffix(n, "_test.go") {
				continue
			}
			if ok, err := ctx.MatchFile(filepath.Join(root, d), n); err == nil && ok {
				out = append(out, filepath.Join(d, n))
			}
		}
	}
	sort.Strings(out)
	return out
}

func LoadProgram(root string) (*Program, error) {
	prog := &Program{Fset: token.NewFileSet(), Pkgs: map[string]*Pkg{}, Root: root}
	imp := &chainImporter{prog: prog, std: importer.ForCompiler(prog.Fset, "source", nil)}
	dirs := []struct{ path, dir string }{
		{modPath + "/internal/field", "internal/field"},
		{modPath + "/internal/scalar", "internal/scalar"},
		{modPath, "."},
	}
	for _, d := range dirs {
		dir := filepath.Join(root, d.dir)
		ents, err := os.ReadDir(dir)
		if err != nil {
			return nil, err
		}
		p := &Pkg{Path: d.path, Dir: dir, Funcs: map[string]*ast.FuncDecl{}}
		var names []string
		for _, e := range ents {
			n := e.Name()
			if e.IsDir() || !strings.HasSuffix(n, ".go") || strings.HasSuffix(n, "_test.go") {
				continue
			}
			names = append(names, n)
		}
		sort.Strings(names)
		for _, n := range names {
			if !fileIncluded(dir, n) {
				continue
			}
			f, err := parser.ParseFile(prog.Fset, filepath.Join(dir, n), nil, parser.ParseComments)
			if err != nil {
				return nil, err
			}
			p.Files = append(p.Files, f)
			for _, cg := range f.Comments {
				for _, c := range cg.List {
					if strings.HasPrefix(c.Text, "//@") {
						prog.Contract = append(prog.Contract, contractLine{p, strings.TrimPrefix(c.Text, "//@"), prog.Fset.Position(c.Pos()).String()})
					}
				}
			}
		}
		if d.dir == "." {
			// lemma programs (clients of the API, verified against the contracts) live outside /repo
			cl, _ := filepath.Glob(filepath.Join(clientsDir, "*.go"))
			sort.Strings(cl)
			for _, cf := range cl {
				f, err := parser.ParseFile(prog.Fset, cf, nil, parser.ParseComments)
				if err != nil {
					return nil, err
				}
				p.Files = append(p.Files, f)
				for _, cg := range f.Comments {
					for _, c := range cg.List {
						if strings.HasPrefix(c.Text, "//@") {
							prog.Contract = append(prog.Contract, contractLine{p, strings.TrimPrefix(c.Text, "//@"), prog.Fset.Position(c.Pos()).String()})
						}
					}
				}
			}
		}
		if len(p.Files) == 0 {
			return nil, fmt.Errorf("no files in %s", dir)
		}
		p.Name = p.Files[0].Name.Name
		p.Info = &types.Info{
			Types:      map[ast.Expr]types.TypeAndValue{},
			Defs:       map[*ast.Ident]types.Object{},
			Uses:       map[*ast.Ident]types.Object{},
			Selections: map[*ast.SelectorExpr]*types.Selection{},
			Implicits:  map[ast.Node]types.Object{},
		}
		conf := types.Config{Importer: imp, Error: func(err error) {}}
		tp, err := conf.Check(d.path, prog.Fset, p.Files, p.Info)
		if err != nil {
			return nil, fmt.Errorf("type-check %s: %v", d.path, err)
		}
		p.Types = tp
		for _, f := range p.Files {
			for _, dcl := range f.Decls {
				fd, ok := dcl.(*ast.FuncDecl)
				if !ok || fd.Body == nil {
					continue
				}
				p.Funcs[funcKey(fd)] = fd
			}
		}
		prog.Pkgs[d.path] = p
	}
	return prog, nil
}

func funcKey(fd *ast.FuncDecl) string {
	if fd.Recv == nil || len(fd.Recv.List) == 0 {
		return fd.Name.Name
	}
	t := fd.Recv.List[0].Type
	if s, ok := t.(*ast.StarExpr); ok {
		t = s.X
	}
	if id, ok := t.(*ast.Ident); ok {
		return id.Name + "." + fd.Name.Name
	}
	return "?." + fd.Name.Name
}

// FuncRef identifies a module function.
type FuncRef struct {
	Pkg  *Pkg
	Key  string
	Decl *ast.FuncDecl
}

func (f *FuncRef) QName() string { return f.Pkg.Name + "." + f.Key }

func (prog *Program) FuncOf(obj *types.Func) *FuncRef {
	if obj.Pkg() == nil {
		return nil
	}
	p, ok := prog.Pkgs[obj.Pkg().Path()]
	if !ok {
		return nil
	}
	key := obj.Name()
	if sig, ok := obj.Type().(*types.Signature); ok && sig.Recv() != nil {
		t := sig.Recv().Type()
		if pt, ok := t.(*types.Pointer); ok {
			t = pt.Elem()
		}
		if nt, ok := t.(*types.Named); ok {
			key = nt.Obj().Name() + "." + obj.Name()
		}
	}
	fd, ok := p.Funcs[key]
	if !ok {
		return nil
	}
	return &FuncRef{p, key, fd}
}

func (prog *Program) Lookup(qname string) *FuncRef {
	i := strings.Index(qname, ".")
	if i < 0 {
		return nil
	}
	pn, key := qname[:i], qname[i+1:]
	for _, p := range prog.Pkgs {
		if p.Name == pn {
			if fd, ok := p.Funcs[key]; ok {
				return &FuncRef{p, key, fd}
			}
		}
	}
	return nil
}
