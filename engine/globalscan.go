package main

import (
	"fmt"
	"go/ast"
	"go/token"
	"go/types"
	"sort"
	"strings"
)

// globalWriteScan: C16 needs "the package keeps no mutable global state". For every package-level variable of the
// three packages, one obligation states that no function body assigns to it (directly, through a field or an
// element). Writes through pointers are covered by the frame obligations of the functions under contract.
func globalWriteScan(v *Verifier) []*ObResult {
	written := map[*types.Var][]string{}
	var all []*types.Var
	for _, p := range v.prog.Pkgs {
		sc := p.Types.Scope()
		for _, n := range sc.Names() {
			if vr, ok := sc.Lookup(n).(*types.Var); ok {
				all = append(all, vr)
			}
		}
		rootVar := func(e ast.Expr) *types.Var {
			for {
				switch x := e.(type) {
				case *ast.ParenExpr:
					e = x.X
				case *ast.SelectorExpr:
					if _, isPkg := p.Info.Uses[x.Sel].(*types.Var); isPkg && p.Info.Selections[x] == nil {
						e = x.Sel
					} else {
						e = x.X
					}
				case *ast.IndexExpr:
					e = x.X
				case *ast.StarExpr:
					return nil // through a pointer: frame obligations
				case *ast.Ident:
					vr, _ := p.Info.Uses[x].(*types.Var)
					if vr != nil && vr.Pkg() != nil && vr.Parent() == vr.Pkg().Scope() {
						return vr
					}
					return nil
				default:
					return nil
				}
			}
		}
		for _, f := range p.Files {
			for _, d := range f.Decls {
				fd, ok := d.(*ast.FuncDecl)
				if !ok || fd.Body == nil {
					continue
				}
				ast.Inspect(fd.Body, func(n ast.Node) bool {
					var lhs []ast.Expr
					switch s := n.(type) {
					case *ast.AssignStmt:
						if s.Tok != token.DEFINE {
							lhs = s.Lhs
						}
					case *ast.IncDecStmt:
						lhs = []ast.Expr{s.X}
					case *ast.RangeStmt:
						if s.Tok == token.ASSIGN {
							lhs = []ast.Expr{s.Key, s.Value}
						}
					}
					for _, l := range lhs {
						if l == nil {
							continue
						}
						if vr := rootVar(l); vr != nil {
							written[vr] = append(written[vr], fmt.Sprintf("%s (%s)", funcKey(fd), v.prog.Fset.Position(l.Pos())))
						}
					}
					return true
				})
			}
		}
	}
	sort.Slice(all, func(i, j int) bool { return all[i].Pkg().Path()+all[i].Name() < all[j].Pkg().Path()+all[j].Name() })
	var out []*ObResult
	for _, vr := range all {
		name := fmt.Sprintf("%s#globals:never-assigned:%s", vr.Pkg().Name(), vr.Name())
		r := &ObResult{Name: name, Subs: 1, Trivial: 1, Status: "discharged", Solvers: map[string]int{"engine:syntactic": 1}, Props: []string{"C16"}, Kind: "globals"}
		if w := written[vr]; len(w) > 0 {
			r.Status = "failed"
			r.Worst = &Oblig{Name: name, Func: vr.Pkg().Name(), Kind: "globals", Info: "package-level variable assigned in " + w[0], Res: SolverResult{Solver: "engine", Result: "sat"}, Sub: "-"}
		}
		out = append(out, r)
	}
	return out
}

// ---- package-level variables that a cone reads -------------------------------------------------------------------
//
// A function that reads a package-level variable is verified against the variable's initial value. That is sound only
// if no function of the module ever changes it. Direct assignments are excluded by globals:never-assigned (C16) and
// by the frame:global obligations of every function that is analysed; what remains is a write through a pointer that
// escaped. So for every package-level variable g read inside a property's cone, (1) every function that mentions g
// joins the cone (its frame:global:g obligation is then part of the property), and (2) one obligation
// globals:no-escape:g states that the address of g (or a reference stored in g) never leaves the functions that
// mention it other than as a direct argument or receiver of a call to a function under contract that does not
// return it.

type globalIndex struct {
	mentions map[string][]string // qualified variable -> qualified functions whose body mentions it
	callers  map[string][]string // qualified function -> qualified functions that call it (syntactically)
	vars     map[string]*types.Var
}

func qualVar(v *types.Var) string { return v.Pkg().Name() + "." + v.Name() }

func (v *Verifier) globalIdx() *globalIndex {
	if v.gidx != nil {
		return v.gidx
	}
	gi := &globalIndex{mentions: map[string][]string{}, callers: map[string][]string{}, vars: map[string]*types.Var{}}
	for _, p := range v.prog.Pkgs {
		for _, f := range p.Files {
			if strings.HasPrefix(v.prog.Fset.Position(f.Package).Filename, clientsDir) {
				continue
			}
			for _, d := range f.Decls {
				fd, ok := d.(*ast.FuncDecl)
				if !ok || fd.Body == nil {
					continue
				}
				me := p.Name + "." + funcKey(fd)
				seenV, seenC := map[string]bool{}, map[string]bool{}
				ast.Inspect(fd.Body, func(n ast.Node) bool {
					id, ok := n.(*ast.Ident)
					if !ok {
						return true
					}
					switch o := p.Info.Uses[id].(type) {
					case *types.Var:
						if o.Pkg() != nil && o.Parent() == o.Pkg().Scope() && v.prog.Pkgs[o.Pkg().Path()] != nil {
							q := qualVar(o)
							gi.vars[q] = o
							if !seenV[q] {
								seenV[q] = true
								gi.mentions[q] = append(gi.mentions[q], me)
							}
						}
					case *types.Func:
						if fr := v.prog.FuncOf(o); fr != nil {
							q := fr.QName()
							if !seenC[q] {
								seenC[q] = true
								gi.callers[q] = append(gi.callers[q], me)
							}
						}
					}
					return true
				})
			}
		}
	}
	v.gidx = gi
	return gi
}

// contractedMentioners: the functions under contract through which code mentioning g is analysed (a mentioning
// function without a contract is inlined into its callers, so its contracted callers stand for it).
func (v *Verifier) contractedMentioners(g string) []string {
	gi := v.globalIdx()
	seen := map[string]bool{}
	var out []string
	work := append([]string{}, gi.mentions[g]...)
	for len(work) > 0 {
		f := work[0]
		work = work[1:]
		if seen[f] {
			continue
		}
		seen[f] = true
		if _, ok := v.specs.Funcs[f]; ok {
			out = append(out, f)
			continue
		}
		work = append(work, gi.callers[f]...)
	}
	sort.Strings(out)
	return out
}

func hasRefs(t types.Type) bool {
	switch u := t.Underlying().(type) {
	case *types.Basic:
		return u.Kind() == types.UnsafePointer
	case *types.Array:
		return hasRefs(u.Elem())
	case *types.Struct:
		for i := 0; i < u.NumFields(); i++ {
			if hasRefs(u.Field(i).Type()) {
				return true
			}
		}
		return false
	}
	return true
}

// globalEscapeScan produces the globals:no-escape obligation of each listed variable.
func (v *Verifier) globalEscapeScan(prop string, globals []string) []*ObResult {
	gi := v.globalIdx()
	var out []*ObResult
	for _, g := range globals {
		gv := gi.vars[g]
		if gv == nil {
			continue
		}
		if isErr := types.Identical(gv.Type(), types.Universe.Lookup("error").Type()); isErr {
			continue // error values are immutable; re-assignment is the business of globals:never-assigned
		}
		var leaks []string
		for _, p := range v.prog.Pkgs {
			for _, f := range p.Files {
				if strings.HasPrefix(v.prog.Fset.Position(f.Package).Filename, clientsDir) {
					continue
				}
				v.escapesIn(p, f, gv, &leaks)
			}
		}
		name := fmt.Sprintf("%s#globals:no-escape:%s", gv.Pkg().Name(), gv.Name())
		r := &ObResult{Name: name, Subs: 1, Trivial: 1, Status: "discharged", Solvers: map[string]int{"engine:syntactic": 1}, Props: []string{prop}, Kind: "globals"}
		if len(leaks) > 0 {
			r.Status = "failed"
			r.Worst = &Oblig{Name: name, Func: gv.Pkg().Name(), Kind: "globals", Sub: "-",
				Info: "a reference to the package-level variable leaves the function that takes it (" + leaks[0] + "); functions verified against its initial value are no longer protected from writes",
				Res:  SolverResult{Solver: "engine", Result: "sat"}}
		}
		out = append(out, r)
	}
	return out
}

// escapesIn walks one file and records every use of gv that hands out a reference to it.
func (v *Verifier) escapesIn(p *Pkg, f *ast.File, gv *types.Var, leaks *[]string) {
	v.refLeaks(p, f, gv, false, 0, leaks)
}

// refLeaks walks root and records every place where a reference to obj's storage (obj is a package-level variable),
// or the reference held in obj itself (isPtr: obj is a pointer or slice parameter that received such a reference),
// goes anywhere but: a dereference or field/element read, a comparison with nil, the receiver or a direct argument
// of a call to a function under contract that does not return it, a modelled read-only standard-library function, or
// an uncontracted module function whose body obeys the same rules for the corresponding parameter.
func (v *Verifier) refLeaks(p *Pkg, root ast.Node, obj types.Object, isPtr bool, depth int, leaks *[]string) {
	if depth > 6 {
		*leaks = append(*leaks, "call chain too deep to follow")
		return
	}
	var stack []ast.Node
	ast.Inspect(root, func(n ast.Node) bool {
		if n == nil {
			stack = stack[:len(stack)-1]
			return true
		}
		stack = append(stack, n)
		id, ok := n.(*ast.Ident)
		if !ok || p.Info.Uses[id] != obj {
			return true
		}
		where := v.prog.Fset.Position(id.Pos()).String()
		// climb the access chain g.f[i].h ...
		i := len(stack) - 2
		var top ast.Node = id
		if i >= 0 {
			if q, ok := stack[i].(*ast.SelectorExpr); ok && q.Sel == id { // pkg.Var
				top = q
				i--
			}
		}
		derefd := false
	climb:
		for ; i >= 0; i-- {
			switch x := stack[i].(type) {
			case *ast.SelectorExpr:
				if x.X == top {
					if sel := p.Info.Selections[x]; sel != nil && sel.Kind() != types.FieldVal {
						break climb // method value / call: handled below through the parent
					}
					top = x
					derefd = true
					continue
				}
			case *ast.IndexExpr:
				if x.X == top {
					top = x
					derefd = true
					continue
				}
			case *ast.StarExpr:
				if isPtr && x.X == top {
					top = x
					derefd = true
					continue
				}
			case *ast.ParenExpr:
				top = x
				continue
			}
			break climb
		}
		var parent ast.Node
		if i >= 0 {
			parent = stack[i]
		}
		topExpr, _ := top.(ast.Expr)
		ref := false // does the expression at 'top' (possibly with its parent operator) denote a reference?
		var refNode ast.Node = top
		switch x := parent.(type) {
		case *ast.UnaryExpr:
			if x.Op == token.AND {
				ref, refNode = true, x
			}
		case *ast.SliceExpr:
			if x.X == top {
				ref, refNode = true, x
			}
		case *ast.SelectorExpr:
			// method call on (part of) the object: pointer receivers take the address implicitly
			if sel := p.Info.Selections[x]; sel != nil && sel.Kind() == types.MethodVal && x.X == top {
				if _, isP := sel.Obj().(*types.Func).Type().(*types.Signature).Recv().Type().(*types.Pointer); isP {
					ref, refNode = true, x
				}
			}
		}
		if !ref && isPtr && !derefd {
			ref = true // the parameter itself is the reference
		}
		if !ref && topExpr != nil {
			if tv, ok := p.Info.Types[topExpr]; ok && tv.Type != nil && hasRefs(tv.Type) {
				ref = true // copying a slice, map or pointer stored there shares what it refers to
			}
		}
		if !ref {
			return true
		}
		// where does the reference go?
		j := i
		if refNode != top {
			j = i - 1
		}
		for j >= 0 {
			if _, ok := stack[j].(*ast.ParenExpr); ok {
				j--
				continue
			}
			break
		}
		if j < 0 {
			*leaks = append(*leaks, where)
			return true
		}
		switch c := stack[j].(type) {
		case *ast.BinaryExpr:
			if c.Op == token.EQL || c.Op == token.NEQ {
				return true // comparison (with nil or another pointer) hands nothing out
			}
			*leaks = append(*leaks, where)
		case *ast.AssignStmt:
			for _, l := range c.Lhs {
				if ast.Node(l) == stack[j+1] {
					return true // it is being assigned to, not copied from (writes are the frame obligations' business)
				}
			}
			*leaks = append(*leaks, where+" (stored in a variable)")
		case *ast.CallExpr:
			var callee *types.Func
			switch fn := c.Fun.(type) {
			case *ast.SelectorExpr:
				callee, _ = p.Info.Uses[fn.Sel].(*types.Func)
			case *ast.Ident:
				callee, _ = p.Info.Uses[fn].(*types.Func)
			}
			if callee == nil {
				if fid, ok := c.Fun.(*ast.Ident); ok {
					if _, isB := p.Info.Uses[fid].(*types.Builtin); isB {
						if fid.Name == "append" && len(c.Args) > 0 && ast.Node(c.Args[0]) == stack[j+1] {
							*leaks = append(*leaks, where+" (append onto it)")
						}
						return true // len, cap, copy, append(x, it...) read it
					}
				}
				*leaks = append(*leaks, where+" (call of a function value or conversion)")
				return true
			}
			argIdx := -1
			for k, a := range c.Args {
				if ast.Node(a) == stack[j+1] {
					argIdx = k
				}
			}
			if fr := v.prog.FuncOf(callee); fr != nil {
				names, _ := paramNames(fr.Decl)
				off := 0
				if fr.Decl.Recv != nil {
					off = 1
				}
				pname := ""
				if argIdx >= 0 && argIdx+off < len(names) {
					pname = names[argIdx+off]
				} else if argIdx < 0 && off == 1 && len(names) > 0 {
					pname = names[0]
				}
				fc := v.specs.Funcs[fr.QName()]
				if fc == nil {
					// inlined callee: its parameter is an alias of the reference; follow it
					var pobj types.Object
					cp := fr.Pkg
					ast.Inspect(fr.Decl, func(m ast.Node) bool {
						if pid, ok := m.(*ast.Ident); ok && pid.Name == pname && cp.Info.Defs[pid] != nil && pobj == nil {
							pobj = cp.Info.Defs[pid]
						}
						return true
					})
					if pobj == nil || fr.Decl.Body == nil {
						*leaks = append(*leaks, where+" (passed to "+fr.QName()+")")
						return true
					}
					v.refLeaks(cp, fr.Decl.Body, pobj, true, depth+1, leaks)
					return true
				}
				// a callee that returns the very parameter that received the reference hands it on
				for _, r := range fc.Returns {
					if r != "" && r == pname {
						if j == 0 {
							*leaks = append(*leaks, where)
						} else if _, dropped := stack[j-1].(*ast.ExprStmt); !dropped {
							*leaks = append(*leaks, where+" ("+fr.QName()+" returns that argument)")
						}
					}
				}
				return true
			}
			// standard library: read-only uses that the engine models
			full := callee.FullName()
			switch {
			case strings.HasPrefix(full, "crypto/subtle.ConstantTimeCompare"), strings.HasPrefix(full, "crypto/subtle.ConstantTimeEq"),
				strings.HasPrefix(full, "bytes.Equal"), strings.HasPrefix(full, "slices.Equal"), strings.HasPrefix(full, "slices.Clone"), strings.HasPrefix(full, "bytes.Clone"),
				strings.HasPrefix(full, "encoding/hex.EncodeToString"), strings.HasSuffix(full, ".Uint64"), strings.HasSuffix(full, ".Uint32"), strings.HasSuffix(full, ".Uint16"),
				full == "(io.Writer).Write", full == "(*math/big.Int).SetBytes":
				return true
			}
			if (full == "crypto/subtle.ConstantTimeCopy" || full == "crypto/subtle.XORBytes") && argIdx > 0 {
				if full == "crypto/subtle.XORBytes" || argIdx == 2 {
					return true // source operands
				}
			}
			*leaks = append(*leaks, where+" (passed to "+full+")")
		default:
			*leaks = append(*leaks, where)
		}
		return true
	})
}
