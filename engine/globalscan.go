package main

import (
	"fmt"
	"go/ast"
	"go/token"
	"go/types"
	"sort"
)

// globalWriteScan: C16 needs "the package keeps no mutable global state". For every package-level variable of the
// three packages, one obligation states that no function body assigns to it (directly, through a field or an
// element). Writes through pointers are covered by the frame obligations of the functions under contract.
func globalWriteScan(v *Verifier) []*ObResult {
	written := map[*types.Var][]string{}
	var all []*types.Var
	for _, p := range v.prog.Pkgs {
		sc := p.Types.Scope()
		for _, n := range sc.Names() {
			if vr, ok := sc.Lookup(n).(*types.Var); ok {
				all = append(all, vr)
			}
		}
		rootVar := func(e ast.Expr) *types.Var {
			for {
				switch x := e.(type) {
				case *ast.ParenExpr:
					e = x.X
				case *ast.SelectorExpr:
					if _, isPkg := p.Info.Uses[x.Sel].(*types.Var); isPkg && p.Info.Selections[x] == nil {
						e = x.Sel
					} else {
						e = x.X
					}
				case *ast.IndexExpr:
					e = x.X
				case *ast.StarExpr:
					return nil // through a pointer: frame obligations
				case *ast.Ident:
					vr, _ := p.Info.Uses[x].(*types.Var)
					if vr != nil && vr.Pkg() != nil && vr.Parent() == vr.Pkg().Scope() {
						return vr
					}
					return nil
				default:
					return nil
				}
			}
		}
		for _, f := range p.Files {
			for _, d := range f.Decls {
				fd, ok := d.(*ast.FuncDecl)
				if !ok || fd.Body == nil {
					continue
				}
				ast.Inspect(fd.Body, func(n ast.Node) bool {
					var lhs []ast.Expr
					switch s := n.(type) {
					case *ast.AssignStmt:
						if s.Tok != token.DEFINE {
							lhs = s.Lhs
						}
					case *ast.IncDecStmt:
						lhs = []ast.Expr{s.X}
					case *ast.RangeStmt:
						if s.Tok == token.ASSIGN {
							lhs = []ast.Expr{s.Key, s.Value}
						}
					}
					for _, l := range lhs {
						if l == nil {
							continue
						}
						if vr := rootVar(l); vr != nil {
							written[vr] = append(written[vr], fmt.Sprintf("%s (%s)", funcKey(fd), v.prog.Fset.Position(l.Pos())))
						}
					}
					return true
				})
			}
		}
	}
	sort.Slice(all, func(i, j int) bool { return all[i].Pkg().Path()+all[i].Name() < all[j].Pkg().Path()+all[j].Name() })
	var out []*ObResult
	for _, vr := range all {
		name := fmt.Sprintf("%s#globals:never-assigned:%s", vr.Pkg().Name(), vr.Name())
		r := &ObResult{Name: name, Subs: 1, Trivial: 1, Status: "discharged", Solvers: map[string]int{"engine:syntactic": 1}, Props: []string{"C16"}, Kind: "globals"}
		if w := written[vr]; len(w) > 0 {
			r.Status = "failed"
			r.Worst = &Oblig{Name: name, Func: vr.Pkg().Name(), Kind: "globals", Info: "package-level variable assigned in " + w[0], Res: SolverResult{Solver: "engine", Result: "sat"}, Sub: "-"}
		}
		out = append(out, r)
	}
	return out
}
