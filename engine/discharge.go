package main

import (
	"fmt"
	"os"
	"runtime"
	"sort"
	"sync"
	"time"
)

type ObResult struct {
	Name    string
	Subs    int
	Status  string // discharged failed
	Worst   *Oblig // first failing sub-obligation
	Seconds float64
	Solvers map[string]int
	Trivial int
	Props   []string
	Func    string
	Kind    string
	SMTSize int
	MaxSec  float64 // slowest single sub-query (wall time of the winning solver)
}

func prepare(o *Oblig) *Script {
	hyps := append([]*Term{}, o.Hyps...)
	for _, g := range o.Lemmas {
		if g.Proven && (o.Group == nil || g.Order < o.Group.Order) {
			hyps = append(hyps, g.Goal)
		}
	}
	if !o.Goal.IsFalse() && !o.NoSlice {
		hyps = sliceHyps(hyps, o.Goal, o.Depth)
	}
	all := append([]*Term{o.Goal}, hyps...)
	hyps = append(hyps, rangeHypsGlobal(all)...)
	return BuildScript(hyps, o.Goal, o.Axioms, inputVars(o), o.Ring)
}

func inputVars(o *Oblig) []*Term {
	var names []string
	for n := range o.Inputs {
		names = append(names, n)
	}
	sort.Strings(names)
	var vs []*Term
	seen := map[*Term]bool{}
	occurring := map[*Term]bool{}
	termVars(o.Goal, occurring)
	for _, h := range o.Hyps {
		termVars(h, occurring)
	}
	for _, n := range names {
		t := o.Inputs[n]
		if t.op == "var" && !seen[t] && occurring[t] {
			seen[t] = true
			vs = append(vs, t)
		}
	}
	return vs
}

// global range table: variable name -> bound. Ranges are a function of the variable's name/type only.
var globalRanges = struct {
	sync.Mutex
	m map[*Term]*Term
}{m: map[*Term]*Term{}}

func registerRanges(st *State) {
	globalRanges.Lock()
	defer globalRanges.Unlock()
	for v, ub := range st.ranges {
		if v.sort.K == KInt {
			globalRanges.m[v] = And(Le(IntI(0), v), Lt(v, IntC(ub)))
		}
	}
}

func rangeHypsGlobal(ts []*Term) []*Term {
	vars := map[*Term]bool{}
	for _, t := range ts {
		termVars(t, vars)
	}
	var vs []*Term
	for v := range vars {
		vs = append(vs, v)
	}
	sort.Slice(vs, func(i, j int) bool { return vs[i].id < vs[j].id })
	globalRanges.Lock()
	defer globalRanges.Unlock()
	var out []*Term
	for _, v := range vs {
		if r, ok := globalRanges.m[v]; ok {
			out = append(out, r)
		}
	}
	return out
}

type job struct {
	sc  *Script
	obs []*Oblig
}

func runBatch(obs []*Oblig, timeoutS int, all bool) {
	byText := map[string]*job{}
	var jobs []*job
	for _, o := range obs {
		if o.Trivial {
			o.Res = SolverResult{Solver: "engine", Result: "unsat"}
			continue
		}
		if hypMatch(o) {
			o.Res = SolverResult{Solver: "engine:hypothesis", Result: "unsat"}
			o.Trivial = true
			continue
		}
		sc := prepare(o)
		o.SMTSize = len(sc.Text)
		if j, ok := byText[sc.Text]; ok {
			j.obs = append(j.obs, o)
			continue
		}
		j := &job{sc, []*Oblig{o}}
		byText[sc.Text] = j
		jobs = append(jobs, j)
	}
	var wg sync.WaitGroup
	sem := make(chan struct{}, 14)
	for _, j := range jobs {
		j := j
		wg.Add(1)
		go func() {
			defer wg.Done()
			sem <- struct{}{}
			defer func() { <-sem }()
			to := timeoutS
			if j.obs[0].Cover && to > 3 {
				to = 3
			}
			if j.obs[0].TimeMul > 1 {
				to *= j.obs[0].TimeMul
			}
			if to > 180 {
				to = 180
			}
			best, allr := RunScript(j.obs[0].Name, j.sc, to, all)
			if best.Result != "unsat" && !j.obs[0].NoSlice && !j.obs[0].Soft && !j.obs[0].Cover {
				// the cone-of-influence slice may have dropped the facts that make this path infeasible:
				// retry once with every hypothesis of the path
				o0 := j.obs[0]
				o0.NoSlice = true
				sc2 := prepare(o0)
				o0.NoSlice = false
				if sc2.Text != j.sc.Text {
					b2, a2 := RunScript(o0.Name+"-full", sc2, timeoutS, all)
					if b2.Result == "unsat" {
						best, allr = b2, a2
					}
				}
			}
			for _, o := range j.obs {
				o.Res, o.All = best, allr
			}
		}()
	}
	wg.Wait()
	// second chance: a query that ended without an answer (time-out under machine load, a solver that could not
	// start) is repeated once, with little parallelism and three times the budget, before it counts as undischarged.
	var again []*job
	for _, j := range jobs {
		o0 := j.obs[0]
		if o0.Soft || o0.Cover {
			continue
		}
		switch o0.Res.Result {
		case "timeout", "error", "none", "cancelled":
			again = append(again, j)
		}
	}
	if len(again) > 0 && (len(again) <= 3 || (loadScale() > 1.25 && len(again) <= 24)) {
		sem2 := make(chan struct{}, 3)
		var wg2 sync.WaitGroup
		for _, j := range again {
			j := j
			wg2.Add(1)
			go func() {
				defer wg2.Done()
				sem2 <- struct{}{}
				defer func() { <-sem2 }()
				o0 := j.obs[0]
				to := timeoutS * 3
				if o0.TimeMul > 1 {
					to *= o0.TimeMul
				}
				if to > 240 {
					to = 240 // a query that needs more than this is reported as undischarged
				}
				o0.NoSlice = true
				sc2 := prepare(o0)
				o0.NoSlice = false
				for _, sc := range []*Script{j.sc, sc2} {
					b, a := RunScript(o0.Name+"-retry", sc, to, all)
					if b.Result == "unsat" || b.Result == "sat" {
						for _, o := range j.obs {
							o.Res, o.All = b, a
							o.Retried = true
						}
						if b.Result == "unsat" {
							break
						}
					}
					if sc2.Text == j.sc.Text {
						break
					}
				}
			}()
		}
		wg2.Wait()
	}
}

// Discharge runs all obligations (deduplicated by script text) in parallel.
// Speculative lemma groups are tried first, in rounds, so that later ones can use earlier ones.
func Discharge(obs []*Oblig, timeoutS int, all bool) []*ObResult {
	var soft, hard []*Oblig
	for _, o := range obs {
		if o.Soft {
			soft = append(soft, o)
		} else {
			hard = append(hard, o)
		}
	}
	// wall-clock budgets are scaled by the machine's load: on an oversubscribed machine a solver gets a fraction of a
	// core, and a speculative lemma that misses its budget makes the obligations that need it unprovable
	scale := loadScale()
	timeoutS = int(float64(timeoutS) * scale)
	softT := timeoutS
	if softT > int(10*scale) {
		softT = int(10 * scale)
	}
	softRounds := func(budget int) {
		for round := 0; round < 4 && len(soft) > 0; round++ {
			var todo []*Oblig
			for _, o := range soft {
				if !o.Group.Proven {
					todo = append(todo, o)
				}
			}
			if len(todo) == 0 {
				break
			}
			runBatch(todo, budget, false)
			progress := false
			for _, o := range todo {
				if o.Res.Result == "unsat" && !o.Group.Proven {
					o.Group.Proven = true
					progress = true
				}
			}
			if !progress {
				break
			}
		}
	}
	softRounds(softT)
	// speculative lemmas that ran out of time (rather than being refuted) get a second, longer round before the
	// obligations that may need them are attempted
	starvedNow := func() int {
		n := 0
		for _, o := range soft {
			if !o.Group.Proven && o.Res.Result != "sat" && o.Res.Result != "unknown" {
				n++
				if os.Getenv("VERIF_DEBUG_SOFT") != "" {
					fmt.Printf("  [soft lemma without answer: %s %s %.1fs]\n", o.Name, o.Res.Result, o.Res.Seconds)
				}
			}
		}
		return n
	}
	// (only on an oversubscribed machine: on an idle one a speculative lemma that times out is simply not provable,
	// and retrying it would multiply the time a check takes on a tree that really violates the property)
	busy := scale > 1.25
	if busy && starvedNow() > 0 {
		softRounds(softT * 4)
	}
	runBatch(hard, timeoutS, all)
	// third chance: obligations that failed while speculative lemmas they may depend on ran out of time (rather than
	// being refuted) are retried after those lemmas have had four times the budget
	var failed []*Oblig
	for _, o := range hard {
		if !o.Trivial && !o.Cover && o.Res.Result != "unsat" && o.Res.Result != "sat" && len(o.Lemmas) > 0 {
			failed = append(failed, o)
		}
	}
	starved := false
	for _, o := range soft {
		if !o.Group.Proven && o.Res.Result != "sat" {
			starved = true
		}
	}
	if busy && len(failed) > 0 && starved {
		softRounds(softT * 4)
		runBatch(failed, timeoutS*2, all)
	}
	// aggregate
	coverSeen := map[string]*coverAgg{}
	byName := map[string]*ObResult{}
	var order []string
	for _, o := range obs {
		r, ok := byName[o.Name]
		if !ok {
			r = &ObResult{Name: o.Name, Status: "discharged", Solvers: map[string]int{}, Func: o.Func, Kind: o.Kind}
			byName[o.Name] = r
			order = append(order, o.Name)
		}
		r.Subs++
		for _, p := range o.Props {
			found := false
			for _, q := range r.Props {
				if q == p {
					found = true
				}
			}
			if !found {
				r.Props = append(r.Props, p)
			}
		}
		if o.Trivial {
			r.Trivial++
			continue
		}
		r.Seconds += o.Res.Seconds
		if o.Res.Seconds > r.MaxSec {
			r.MaxSec = o.Res.Seconds
		}
		r.Solvers[o.Res.Solver]++
		if o.Soft {
			if o.Group.Proven {
				r.Status = "discharged"
			}
			continue
		}
		if o.Cover {
			// expected: sat (or undecided) on at least one path of each case. If every explored return path of a case
			// is unsat, the hypotheses are contradictory and everything proved under them is vacuous.
			key := o.Name + "|" + o.Pattern
			if coverSeen[key] == nil {
				coverSeen[key] = &coverAgg{}
			}
			ca := coverSeen[key]
			ca.n++
			if o.Res.Result != "unsat" {
				ca.feasible = true
			}
			ca.last = o
			ca.res = r
			continue
		}
		if o.Res.Result != "unsat" {
			r.Status = "failed"
			if r.Worst == nil || (r.Worst.Res.Result != "sat" && o.Res.Result == "sat") {
				r.Worst = o
			}
		}
	}
	for _, ca := range coverSeen {
		if !ca.feasible {
			ca.res.Status = "failed"
			ca.res.Worst = ca.last
			ca.last.Info = "VACUOUS (every return path of this case is infeasible): " + ca.last.Info
		}
	}
	var out []*ObResult
	for _, n := range order {
		out = append(out, byName[n])
	}
	return out
}

func fmtDur(d time.Duration) string { return fmt.Sprintf("%.1fs", d.Seconds()) }

// hypMatch: the goal (or each of its conjuncts) is literally one of the hypotheses.
func hypMatch(o *Oblig) bool {
	if o.Soft || len(o.Lemmas) > 0 || o.Cover {
		return false
	}
	hs := map[*Term]bool{}
	var add func(t *Term)
	add = func(t *Term) {
		hs[t] = true
		if t.op == "and" {
			for _, a := range t.args {
				add(a)
			}
		}
	}
	for _, h := range o.Hyps {
		add(h)
	}
	var ok func(t *Term) bool
	ok = func(t *Term) bool {
		if hs[t] {
			return true
		}
		if t.op == "and" {
			for _, a := range t.args {
				if !ok(a) {
					return false
				}
			}
			return true
		}
		return false
	}
	return ok(o.Goal)
}

type coverAgg struct {
	n        int
	feasible bool
	last     *Oblig
	res      *ObResult
}

// loadScale returns max(1, load average / number of CPUs), capped at 4.
func loadScale() float64 {
	b, err := os.ReadFile("/proc/loadavg")
	if err != nil {
		return 1
	}
	var l1 float64
	fmt.Sscanf(string(b), "%f", &l1)
	sc := l1 / float64(runtime.NumCPU())
	if sc < 1 {
		return 1
	}
	if sc > 4 {
		return 4
	}
	return sc
}
