package main

import (
	"fmt"
	"go/ast"
	"go/types"
	"math/big"
	"strings"
)

// assume adds t to the path facts; equalities that define a Montgomery-decoded value of freshly
// havocked limbs are additionally recorded as bindings (eager substitution).
func (ex *Exec) assume(t *Term, origin string) {
	if t.op == "and" {
		for _, a := range t.args {
			ex.assume(a, origin)
		}
		return
	}
	if t.op == "=" && t.args[0].sort.K != KBool {
		for i := 0; i < 2; i++ {
			a, b := t.args[i], t.args[1-i]
			if a.op == "var" && ex.havocVars[a] && !occurs(a, b) {
				if _, bound := ex.st.bind[a]; !bound {
					ex.st.bind[a] = b
					break
				}
			}
		}
	}
	if t.op == "=" && t.args[0].sort.K == KF {
		for i := 0; i < 2; i++ {
			a, b := t.args[i], t.args[1-i]
			if a.op == "app" && strings.HasPrefix(a.name, "fromM_") && ex.allHavoc(a.args[0]) {
				if _, bound := ex.st.bind[a]; !bound && !occurs(a, b) {
					ex.st.bind[a] = b
					break
				}
			}
		}
	}
	ex.tightenRange(t)
	ex.st.addFact(t, origin)
}

// tightenRange: an assumed bound on a word narrows its known range (so that flag idioms such as -f are recognised).
func (ex *Exec) tightenRange(t *Term) {
	if t.op == "and" {
		for _, a := range t.args {
			ex.tightenRange(a)
		}
		return
	}
	if (t.op == "<=" || t.op == "<") && len(t.args) == 2 && t.args[1].IsConst() && t.args[0].sort.K == KInt {
		if old, ok := ex.st.ranges[t.args[0]]; ok {
			nb := new(big.Int).Set(t.args[1].val)
			if t.op == "<=" {
				nb.Add(nb, bi(1))
			}
			if nb.Sign() > 0 && nb.Cmp(old) < 0 {
				ex.st.ranges[t.args[0]] = nb
			}
		}
	}
}

// bindOnly records the bindings an assumption would create, without adding it as a fact.
func (ex *Exec) bindOnly(t *Term) {
	n := len(ex.st.facts)
	ex.assume(t, "")
	ex.st.facts = ex.st.facts[:n]
}

func occurs(x, in *Term) bool {
	seen := map[*Term]bool{}
	var walk func(t *Term) bool
	walk = func(t *Term) bool {
		if t == x {
			return true
		}
		if seen[t] {
			return false
		}
		seen[t] = true
		for _, a := range t.args {
			if walk(a) {
				return true
			}
		}
		return false
	}
	return walk(in)
}

func (ex *Exec) allHavoc(t *Term) bool {
	vs := map[*Term]bool{}
	termVars(t, vs)
	if len(vs) == 0 {
		return false
	}
	for v := range vs {
		if !ex.havocVars[v] {
			return false
		}
	}
	return true
}

// havocLeaf replaces a scalar cell by a fresh variable of the right type.
func (ex *Exec) havocLeaf(o *Obj, i int, t types.Type, prefix string) {
	mt := machType(t)
	switch mt.Kind {
	case "int", "bool":
		v := ex.freshWord(prefix, mt)
		ex.havocVars[v] = true
		o.Cells[i] = v
	case "error":
		v := Fresh(prefix, SInt)
		ex.st.ranges[v] = bi(1 << 20)
		o.Cells[i] = v
	default:
		ex.unsupported("havoc of cell of type %s", t)
	}
}

func (ex *Exec) havocPlace(p PtrV, prefix string) {
	var leaves []leafInfo
	leafTypes(p.Typ, "", &leaves)
	if p.Obj.Global {
		ex.oblige("frame", "global:"+p.Obj.Name, BoolC(false), "callee modifies package-level variable")
	}
	for i, l := range leaves {
		ex.havocLeaf(p.Obj, p.Off+i, l.Typ, prefix+l.Path)
		ex.noteWrite(p.Obj, p.Off+i, 1)
	}
}

func (ex *Exec) freshResult(t types.Type, how string, name string, bind map[string]Value) Value {
	mt := machType(t)
	switch mt.Kind {
	case "int", "bool":
		v := ex.freshWord(name, mt)
		ex.havocVars[v] = true
		return v
	case "error":
		v := Fresh(name, SInt)
		ex.st.ranges[v] = bi(1 << 20)
		return v
	case "ptr":
		pt := t.Underlying().(*types.Pointer).Elem()
		if how == "" || how == "fresh" {
			o := ex.st.newObj(name, pt)
			o.Cells = make([]Value, leafCount(pt))
			var leaves []leafInfo
			leafTypes(pt, "", &leaves)
			for i, l := range leaves {
				ex.havocLeaf(o, i, l.Typ, name+l.Path)
			}
			return PtrV{Obj: o, Typ: pt}
		}
		if how == "nil" {
			return PtrV{Typ: pt}
		}
		v, ok := bind[how].(PtrV)
		if !ok {
			ex.unsupported("returns %s: not a pointer parameter", how)
		}
		return v
	case "slice":
		st := t.Underlying().(*types.Slice)
		if strings.HasPrefix(how, "fresh:$") {
			t, ok := bind[how[7:]].(*Term)
			if !ok || !t.IsConst() {
				ex.unsupported("result length %s is not a constant at this call", how[7:])
			}
			how = "fresh:" + t.val.String()
		}
		if strings.HasPrefix(how, "fresh:") {
			alts := strings.Split(how[6:], "|")
			pick := alts[len(alts)-1]
			for _, a := range alts[:len(alts)-1] {
				sel := Fresh(name+".len"+a, SBool)
				if ex.decide(sel, "result-length") {
					pick = a
					break
				}
			}
			var n int
			fmt.Sscanf(pick, "%d", &n)
			o := ex.newBytes(name, n, n)
			for i := 0; i < n; i++ {
				ex.havocLeaf(o, i, st.Elem(), fmt.Sprintf("%s[%d]", name, i))
			}
			return SliceV{Obj: o, Len: n, Cap: n, Elem: st.Elem()}
		}
		if how == "abs" || how == "" {
			return ex.freshAbsSlice(name, st)
		}
	}
	switch u := t.Underlying().(type) {
	case *types.Array:
		n := int(u.Len())
		if n > 64 && leafCount(u.Elem()) == 1 {
			ex.symCount++
			return AggV{Typ: t, Sym: &SymArr{Name: fmt.Sprintf("%s$%d", name, ex.symCount), Len: n, Elem: ex.wordSort(machType(u.Elem()))}}
		}
		z := ex.zeroValue(t).(AggV)
		var leaves []leafInfo
		leafTypes(t, "", &leaves)
		tmp := &Obj{Cells: z.Cells}
		for i, l := range leaves {
			ex.havocLeaf(tmp, i, l.Typ, name+l.Path)
		}
		return z
	case *types.Struct:
		z := ex.zeroValue(t).(AggV)
		var leaves []leafInfo
		leafTypes(t, "", &leaves)
		tmp := &Obj{Cells: z.Cells}
		for i, l := range leaves {
			ex.havocLeaf(tmp, i, l.Typ, name+l.Path)
		}
		return z
	}
	ex.unsupported("fresh result of type %s", t)
	return nil
}

// bindParams builds the spec-variable binding for a call of fr with args.
func (ex *Exec) bindParams(fr *FuncRef, args []Value) map[string]Value {
	names, idents := paramNames(fr.Decl)
	if len(names) != len(args) {
		ex.unsupported("contract call %s: %d params vs %d args", fr.QName(), len(names), len(args))
	}
	b := map[string]Value{}
	for i, n := range names {
		if n == "_" {
			continue
		}
		v := args[i]
		if a, ok := v.(AggV); ok { // by-value aggregate: materialise
			t := fr.Pkg.Info.Defs[idents[i]].Type()
			o := ex.st.newObj("byval:"+n, t)
			o.Cells = append([]Value{}, a.Cells...)
			o.Sym = a.Sym
			v = PtrV{Obj: o, Typ: t}
		}
		if tv, ok := v.(TupleV); ok {
			b[n] = tv
			for j, x := range tv {
				b[fmt.Sprintf("%s%d", n, j)] = x
			}
			continue
		}
		b[n] = v
	}
	return b
}

func resultTypes(fr *FuncRef) []types.Type {
	var out []types.Type
	if fr.Decl.Type.Results == nil {
		return out
	}
	for _, f := range fr.Decl.Type.Results.List {
		t := fr.Pkg.Info.Types[f.Type].Type
		n := len(f.Names)
		if n == 0 {
			n = 1
		}
		for i := 0; i < n; i++ {
			out = append(out, t)
		}
	}
	return out
}

func bindResults(vars map[string]Value, res []Value) {
	if len(res) == 1 {
		vars["result"] = res[0]
	}
	for i, r := range res {
		vars[fmt.Sprintf("result%d", i)] = r
	}
}

func (ex *Exec) applyContract(fc *FuncContract, fr *FuncRef, args []Value, at ast.Node) Value {
	ex.callCount[fr.QName()]++
	site := fmt.Sprintf("%s@%s", fr.QName(), ex.where(at))
	ex.calledContracts[fr.QName()] = true
	vars := ex.bindParams(fr, args)
	old := ex.snapshot()
	ctx := &SpecCtx{ex: ex, vars: vars, old: old, pkg: fr.Pkg}
	for _, rq := range fc.Requires {
		g := ctx.term(rq.Expr)
		name := rq.Name
		if name == "" {
			name = "pre"
		}
		ex.oblige("call", site+"#pre:"+name, g, rq.Text)
	}
	// a callee that may panic: the caller's path ends there when its panic condition holds
	if fc.Panics != nil {
		pc := ctx.term(fc.Panics.Expr)
		if ex.decide(pc, "callee panics") {
			ex.reachedPanic(at)
			panic(pathEnd{"callee panic"})
		}
	}
	// havoc frame
	for _, m := range fc.Modifies {
		if id, ok := m.(*ast.Ident); ok {
			if _, isGhost := ex.ghost[id.Name]; isGhost {
				ex.ghost[id.Name] = Fresh(id.Name, ex.ghost[id.Name].sort)
				continue
			}
		}
		v := ctx.eval(m)
		switch p := v.(type) {
		case PtrV:
			if p.Obj == nil {
				continue
			}
			ex.havocPlace(p, fr.Key+".")
		case SliceV:
			if p.Obj != nil {
				for i := 0; i < p.Len; i++ {
					ex.havocLeaf(p.Obj, p.Off+i, p.Elem, fr.Key+".b")
					ex.noteWrite(p.Obj, p.Off+i, 1)
				}
			}
		case *Term:
			// a scalar place evaluated to its content: need the place itself
			if se, ok := m.(*ast.StarExpr); ok {
				pp := ctx.eval(se.X).(PtrV)
				ex.havocPlace(pp, fr.Key+".")
			} else {
				ex.unsupported("modifies clause %s does not denote a place", exprStr(m))
			}
		default:
			ex.unsupported("modifies clause %s: %T", exprStr(m), v)
		}
	}
	// results
	rts := resultTypes(fr)
	var res []Value
	for i, rt := range rts {
		how := ""
		if i < len(fc.Returns) {
			how = fc.Returns[i]
		}
		res = append(res, ex.freshResult(rt, how, fmt.Sprintf("%s.r%d", fr.Key, i), vars))
	}
	bindResults(vars, res)
	actx := &SpecCtx{ex: ex, vars: vars, old: old, pkg: fr.Pkg, assume: true}
	// pass 1: bindings only, most abstract statements (derived clauses) first
	for _, en := range fc.Derives {
		ex.bindOnly(actx.term(en.Expr))
	}
	for _, en := range fc.Ensures {
		if !en.Internal {
			ex.bindOnly(actx.term(en.Expr))
		}
	}
	// pass 2: facts, with every term resolved through the bindings
	for _, en := range fc.Ensures {
		if en.Internal {
			continue
		}
		ex.assume(actx.term(en.Expr), site+"#"+en.Name)
	}
	for _, en := range fc.Derives {
		ex.assume(actx.term(en.Expr), site+"#"+en.Name)
	}
	return pack(res)
}
