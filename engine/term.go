package main

import (
	"fmt"
	"math/big"
	"sort"
	"strings"
)

// ---------- sorts ----------

type Kind int

const (
	KInt Kind = iota
	KBool
	KBV
	KU // uninterpreted
	KF // prime-field element; SMT representation Int
)

type Sort struct {
	K    Kind
	W    int
	Name string
}

var (
	SInt  = Sort{K: KInt}
	SBool = Sort{K: KBool}
	SG    = Sort{K: KU, Name: "G"}
	SStr  = Sort{K: KU, Name: "Str"}
	STr   = Sort{K: KU, Name: "Tr"}
	SF    = Sort{K: KF, Name: "P"} // element of F_p (printed as Int)
	SN    = Sort{K: KF, Name: "N"} // element of Z_n (printed as Int)
)

func SBV(w int) Sort { return Sort{K: KBV, W: w} }

func (s Sort) String() string {
	switch s.K {
	case KInt:
		return "Int"
	case KBool:
		return "Bool"
	case KBV:
		return fmt.Sprintf("(_ BitVec %d)", s.W)
	case KF:
		return "Int"
	}
	return s.Name
}

func (s Sort) Key() string {
	if s.K == KF {
		return "F" + s.Name
	}
	return s.String()
}

// ---------- terms ----------

type Term struct {
	id   int
	op   string // const var app + - * div mod neg < <= = ite and or not => bv* ...
	args []*Term
	sort Sort
	val  *big.Int // const
	name string   // var / app
	hi   int      // extract
	lo   int
}

type TermStore struct {
	tab   map[string]*Term
	next  int
	fresh int
}

var TS = &TermStore{tab: map[string]*Term{}}

func (ts *TermStore) mk(op string, sort Sort, name string, val *big.Int, hi, lo int, args ...*Term) *Term {
	var sb strings.Builder
	sb.WriteString(op)
	sb.WriteByte('|')
	sb.WriteString(sort.Key())
	sb.WriteByte('|')
	sb.WriteString(name)
	if val != nil {
		sb.WriteByte('|')
		sb.WriteString(val.String())
	}
	if op == "extract" {
		fmt.Fprintf(&sb, "|%d:%d", hi, lo)
	}
	for _, a := range args {
		fmt.Fprintf(&sb, ",%d", a.id)
	}
	k := sb.String()
	if t, ok := ts.tab[k]; ok {
		return t
	}
	ts.next++
	t := &Term{id: ts.next, op: op, args: args, sort: sort, val: val, name: name, hi: hi, lo: lo}
	ts.tab[k] = t
	return t
}

func bi(x int64) *big.Int { return big.NewInt(x) }
func pow2(n int) *big.Int { return new(big.Int).Lsh(big.NewInt(1), uint(n)) }
func bigStr(s string) *big.Int {
	v, ok := new(big.Int).SetString(s, 0)
	if !ok {
		panic("bad bigint " + s)
	}
	return v
}

func IntC(v *big.Int) *Term { return TS.mk("const", SInt, "", new(big.Int).Set(v), 0, 0) }
func IntI(v int64) *Term    { return IntC(bi(v)) }
func BoolC(b bool) *Term {
	if b {
		return TS.mk("const", SBool, "", bi(1), 0, 0)
	}
	return TS.mk("const", SBool, "", bi(0), 0, 0)
}
func BVC(v *big.Int, w int) *Term {
	m := new(big.Int).Mod(v, pow2(w))
	return TS.mk("const", SBV(w), "", m, 0, 0)
}
func Var(name string, s Sort) *Term { return TS.mk("var", s, name, nil, 0, 0) }
func Fresh(prefix string, s Sort) *Term {
	TS.fresh++
	return Var(fmt.Sprintf("%s!%d", prefix, TS.fresh), s)
}
func App(name string, s Sort, args ...*Term) *Term {
	if concreteOn && (len(args) > 0 || name == "gzero") {
		if r := foldApp(name, s, args); r != nil {
			return r
		}
	}
	return TS.mk("app", s, name, nil, 0, 0, args...)
}

func (t *Term) IsConst() bool { return t.op == "const" }
func (t *Term) IsTrue() bool  { return t.op == "const" && t.sort.K == KBool && t.val.Sign() != 0 }
func (t *Term) IsFalse() bool { return t.op == "const" && t.sort.K == KBool && t.val.Sign() == 0 }

// ---------- boolean ----------

func Not(a *Term) *Term {
	if a.IsConst() {
		return BoolC(a.val.Sign() == 0)
	}
	if a.op == "not" {
		return a.args[0]
	}
	return TS.mk("not", SBool, "", nil, 0, 0, a)
}
func And(as ...*Term) *Term {
	var out []*Term
	for _, a := range as {
		if a.IsFalse() {
			return BoolC(false)
		}
		if a.IsTrue() {
			continue
		}
		if a.op == "and" {
			out = append(out, a.args...)
		} else {
			out = append(out, a)
		}
	}
	if len(out) == 0 {
		return BoolC(true)
	}
	if len(out) == 1 {
		return out[0]
	}
	return TS.mk("and", SBool, "", nil, 0, 0, out...)
}
func Or(as ...*Term) *Term {
	var out []*Term
	for _, a := range as {
		if a.IsTrue() {
			return BoolC(true)
		}
		if a.IsFalse() {
			continue
		}
		if a.op == "or" {
			out = append(out, a.args...)
		} else {
			out = append(out, a)
		}
	}
	if len(out) == 0 {
		return BoolC(false)
	}
	if len(out) == 1 {
		return out[0]
	}
	return TS.mk("or", SBool, "", nil, 0, 0, out...)
}
func Implies(a, b *Term) *Term { return Or(Not(a), b) }
func Iff(a, b *Term) *Term     { return Eq(a, b) }

func Eq(a, b *Term) *Term {
	if a.sort != b.sort {
		panic(fmt.Sprintf("Eq sort mismatch %s vs %s: %s = %s", a.sort, b.sort, a.Short(), b.Short()))
	}
	if a == b {
		return BoolC(true)
	}
	if a.IsConst() && b.IsConst() {
		return BoolC(a.val.Cmp(b.val) == 0)
	}
	if a.op == "app" && b.op == "app" && len(a.args) == 0 && len(b.args) == 0 &&
		(strings.HasPrefix(a.name, "gconst:") && strings.HasPrefix(b.name, "gconst:") || strings.HasPrefix(a.name, "strlit:") && strings.HasPrefix(b.name, "strlit:")) {
		return BoolC(false) // distinct canonical constants
	}
	if a.sort.K == KBool {
		if a.IsConst() {
			a, b = b, a
		}
		if b.IsTrue() {
			return a
		}
		if b.IsFalse() {
			return Not(a)
		}
	}
	if a.id > b.id {
		a, b = b, a
	}
	return TS.mk("=", SBool, "", nil, 0, 0, a, b)
}
func Ite(c, a, b *Term) *Term {
	if c.IsTrue() {
		return a
	}
	if c.IsFalse() {
		return b
	}
	// nested tests of the same condition
	for a.op == "ite" && a.args[0] == c {
		a = a.args[1]
	}
	for b.op == "ite" && b.args[0] == c {
		b = b.args[2]
	}
	if a == b {
		return a
	}
	if a.sort != b.sort {
		panic(fmt.Sprintf("Ite sort mismatch %s vs %s", a.sort, b.sort))
	}
	if a.sort.K == KBool {
		return And(Implies(c, a), Implies(Not(c), b))
	}
	return TS.mk("ite", a.sort, "", nil, 0, 0, c, a, b)
}

// ---------- integer ----------

func Add(as ...*Term) *Term {
	c := new(big.Int)
	var out []*Term
	for _, a := range as {
		if a.sort.K != KInt {
			panic("Add on non-int " + a.Short())
		}
		if a.IsConst() {
			c.Add(c, a.val)
		} else if a.op == "+" {
			for _, x := range a.args {
				if x.IsConst() {
					c.Add(c, x.val)
				} else {
					out = append(out, x)
				}
			}
		} else {
			out = append(out, a)
		}
	}
	if c.Sign() != 0 || len(out) == 0 {
		out = append(out, IntC(c))
	}
	if len(out) == 1 {
		return out[0]
	}
	return TS.mk("+", SInt, "", nil, 0, 0, out...)
}
func Neg(a *Term) *Term {
	if a.IsConst() {
		return IntC(new(big.Int).Neg(a.val))
	}
	return Mul(IntI(-1), a)
}
func Sub(a, b *Term) *Term { return Add(a, Neg(b)) }
func Mul(as ...*Term) *Term {
	c := big.NewInt(1)
	var out []*Term
	for _, a := range as {
		if a.sort.K != KInt {
			panic("Mul on non-int " + a.Short())
		}
		if a.IsConst() {
			c.Mul(c, a.val)
		} else if a.op == "*" {
			for _, x := range a.args {
				if x.IsConst() {
					c.Mul(c, x.val)
				} else {
					out = append(out, x)
				}
			}
		} else {
			out = append(out, a)
		}
	}
	if c.Sign() == 0 {
		return IntI(0)
	}
	if len(out) == 0 {
		return IntC(c)
	}
	sort.SliceStable(out, func(i, j int) bool { return out[i].id < out[j].id })
	if c.Cmp(bi(1)) != 0 {
		out = append([]*Term{IntC(c)}, out...)
	}
	if len(out) == 1 {
		return out[0]
	}
	return TS.mk("*", SInt, "", nil, 0, 0, out...)
}
func Div(a, b *Term) *Term {
	if a.IsConst() && b.IsConst() && b.val.Sign() > 0 {
		q := new(big.Int)
		m := new(big.Int)
		q.DivMod(a.val, b.val, m)
		return IntC(q)
	}
	if b.IsConst() && b.val.Cmp(bi(1)) == 0 {
		return a
	}
	// (x div a) div b == x div (a*b) for positive constants a, b (floor division)
	if b.IsConst() && b.val.Sign() > 0 && a.op == "div" && a.args[1].IsConst() && a.args[1].val.Sign() > 0 {
		return Div(a.args[0], IntC(new(big.Int).Mul(a.args[1].val, b.val)))
	}
	return TS.mk("div", SInt, "", nil, 0, 0, a, b)
}
func Mod(a, b *Term) *Term {
	if a.IsConst() && b.IsConst() && b.val.Sign() > 0 {
		return IntC(new(big.Int).Mod(a.val, b.val))
	}
	return TS.mk("mod", SInt, "", nil, 0, 0, a, b)
}
func Lt(a, b *Term) *Term {
	if a.IsConst() && b.IsConst() {
		return BoolC(a.val.Cmp(b.val) < 0)
	}
	return TS.mk("<", SBool, "", nil, 0, 0, a, b)
}
func Le(a, b *Term) *Term {
	if a.IsConst() && b.IsConst() {
		return BoolC(a.val.Cmp(b.val) <= 0)
	}
	if a == b {
		return BoolC(true)
	}
	return TS.mk("<=", SBool, "", nil, 0, 0, a, b)
}

// ---------- bit-vectors ----------

func bvbin(op string, a, b *Term, f func(x, y *big.Int, w int) *big.Int) *Term {
	if a.sort != b.sort || a.sort.K != KBV {
		panic(fmt.Sprintf("%s sort mismatch %s %s", op, a.sort, b.sort))
	}
	w := a.sort.W
	if a.IsConst() && b.IsConst() && f != nil {
		return BVC(f(a.val, b.val, w), w)
	}
	return TS.mk(op, a.sort, "", nil, 0, 0, a, b)
}
func BVAdd(a, b *Term) *Term {
	return bvbin("bvadd", a, b, func(x, y *big.Int, w int) *big.Int { return new(big.Int).Add(x, y) })
}
func BVSub(a, b *Term) *Term {
	return bvbin("bvsub", a, b, func(x, y *big.Int, w int) *big.Int { return new(big.Int).Sub(x, y) })
}
func BVMul(a, b *Term) *Term {
	return bvbin("bvmul", a, b, func(x, y *big.Int, w int) *big.Int { return new(big.Int).Mul(x, y) })
}
func BVAnd(a, b *Term) *Term {
	return bvbin("bvand", a, b, func(x, y *big.Int, w int) *big.Int { return new(big.Int).And(x, y) })
}
func BVOr(a, b *Term) *Term {
	return bvbin("bvor", a, b, func(x, y *big.Int, w int) *big.Int { return new(big.Int).Or(x, y) })
}
func BVXor(a, b *Term) *Term {
	return bvbin("bvxor", a, b, func(x, y *big.Int, w int) *big.Int { return new(big.Int).Xor(x, y) })
}
func BVShl(a, b *Term) *Term {
	return bvbin("bvshl", a, b, func(x, y *big.Int, w int) *big.Int {
		if y.Cmp(bi(int64(w))) >= 0 {
			return new(big.Int)
		}
		return new(big.Int).Lsh(x, uint(y.Int64()))
	})
}
func BVLshr(a, b *Term) *Term {
	return bvbin("bvlshr", a, b, func(x, y *big.Int, w int) *big.Int {
		if y.Cmp(bi(int64(w))) >= 0 {
			return new(big.Int)
		}
		return new(big.Int).Rsh(x, uint(y.Int64()))
	})
}
func BVNot(a *Term) *Term {
	if a.IsConst() {
		return BVC(new(big.Int).Sub(new(big.Int).Sub(pow2(a.sort.W), bi(1)), a.val), a.sort.W)
	}
	return TS.mk("bvnot", a.sort, "", nil, 0, 0, a)
}
func BVNeg(a *Term) *Term {
	if a.IsConst() {
		return BVC(new(big.Int).Neg(a.val), a.sort.W)
	}
	return TS.mk("bvneg", a.sort, "", nil, 0, 0, a)
}
func BVUlt(a, b *Term) *Term {
	if a.sort != b.sort {
		panic("bvult sort mismatch")
	}
	if a.IsConst() && b.IsConst() {
		return BoolC(a.val.Cmp(b.val) < 0)
	}
	return TS.mk("bvult", SBool, "", nil, 0, 0, a, b)
}
func BVUle(a, b *Term) *Term {
	if a.sort != b.sort {
		panic("bvule sort mismatch")
	}
	if a.IsConst() && b.IsConst() {
		return BoolC(a.val.Cmp(b.val) <= 0)
	}
	return TS.mk("bvule", SBool, "", nil, 0, 0, a, b)
}
func Concat(a, b *Term) *Term {
	w := a.sort.W + b.sort.W
	if a.IsConst() && b.IsConst() {
		v := new(big.Int).Lsh(a.val, uint(b.sort.W))
		v.Or(v, b.val)
		return BVC(v, w)
	}
	return TS.mk("concat", SBV(w), "", nil, 0, 0, a, b)
}
func Extract(a *Term, hi, lo int) *Term {
	w := hi - lo + 1
	if lo == 0 && w == a.sort.W {
		return a
	}
	if a.IsConst() {
		v := new(big.Int).Rsh(a.val, uint(lo))
		return BVC(v, w)
	}
	if a.op == "zext" && hi < a.args[0].sort.W {
		return Extract(a.args[0], hi, lo)
	}
	return TS.mk("extract", SBV(w), "", nil, hi, lo, a)
}
func ZExt(a *Term, w int) *Term {
	if a.sort.W == w {
		return a
	}
	if a.sort.W > w {
		return Extract(a, w-1, 0)
	}
	if a.IsConst() {
		return BVC(a.val, w)
	}
	return TS.mk("zext", SBV(w), "", nil, 0, 0, a)
}

// ---------- printing ----------

type printer struct {
	names  map[int]string
	ring   bool
	decls  []string
	seen   map[string]bool
	onlyBV bool
	vars   []*Term
	usorts []string
	comm   []string // ground commutativity instances of uninterpreted field products (int mode)
}

func newPrinter(ring bool) *printer {
	return &printer{names: map[int]string{}, ring: ring, seen: map[string]bool{}, onlyBV: true}
}

func (p *printer) declare(key, decl string) {
	if !p.seen[key] {
		p.seen[key] = true
		p.decls = append(p.decls, decl)
	}
}

func (p *printer) noteSort(s Sort) {
	if s.K != KBV && s.K != KBool {
		p.onlyBV = false
	}
	if s.K == KU && !p.seen["sort:"+s.Name] {
		p.seen["sort:"+s.Name] = true
		p.usorts = append(p.usorts, fmt.Sprintf("(declare-sort %s 0)", s.Name))
	}
}

func (t *Term) Short() string {
	s := newPrinter(false).smt(t, true)
	if len(s) > 300 {
		return s[:300] + "..."
	}
	return s
}

func smtInt(v *big.Int) string {
	if v.Sign() < 0 {
		return "(- " + new(big.Int).Neg(v).String() + ")"
	}
	return v.String()
}

func smtName(n string) string {
	ok := true
	for _, c := range n {
		if !(c >= 'a' && c <= 'z' || c >= 'A' && c <= 'Z' || c >= '0' && c <= '9' || c == '_' || c == '.' || c == '!' || c == '$' || c == '#' || c == '@') {
			ok = false
		}
	}
	if ok && n != "" && !(n[0] >= '0' && n[0] <= '9') {
		return n
	}
	return "|" + n + "|"
}

func (p *printer) uf(name string, ret Sort, args []*Term) {
	var as []string
	for _, a := range args {
		as = append(as, a.sort.String())
		p.noteSort(a.sort)
	}
	p.noteSort(ret)
	p.onlyBV = false
	p.declare("f:"+name, fmt.Sprintf("(declare-fun %s (%s) %s)", smtName(name), strings.Join(as, " "), ret))
}

// smt prints t. pos is the polarity (only meaningful for Bool terms in ring mode).
func (p *printer) smt(t *Term, pos bool) string {
	if n, ok := p.names[t.id]; ok {
		return n
	}
	p.noteSort(t.sort)
	switch t.op {
	case "const":
		switch t.sort.K {
		case KInt, KF:
			return smtInt(t.val)
		case KBool:
			if t.val.Sign() != 0 {
				return "true"
			}
			return "false"
		case KBV:
			return fmt.Sprintf("(_ bv%s %d)", t.val.String(), t.sort.W)
		}
	case "var":
		if !p.seen["v:"+t.name] {
			p.declare("v:"+t.name, fmt.Sprintf("(declare-fun %s () %s)", smtName(t.name), t.sort))
			p.vars = append(p.vars, t)
		}
		return smtName(t.name)
	case "app":
		if !p.ring && strings.HasPrefix(t.name, "fint_") {
			return p.smt(t.args[0], true) // canonical representative: identity on the Int representation
		}
		p.uf(t.name, t.sort, t.args)
		if len(t.args) == 0 {
			return smtName(t.name)
		}
		var sb strings.Builder
		sb.WriteString("(" + smtName(t.name))
		for _, a := range t.args {
			sb.WriteByte(' ')
			if p.ring && a.sort.K == KF && (a.op == "fadd" || a.op == "fsub" || a.op == "fmul" || a.op == "fneg") {
				// arguments of uninterpreted functions are printed as expanded polynomials in a canonical order, so
				// that two ways of computing the same polynomial (Horner or not, re-associated products) are the
				// same argument for the congruence closure, which does not normalise non-linear terms by itself
				if txt, ok := p.canonPoly(a); ok {
					sb.WriteString(txt)
					continue
				}
			}
			sb.WriteString(p.smt(a, true))
		}
		sb.WriteByte(')')
		return sb.String()
	case "extract":
		return fmt.Sprintf("((_ extract %d %d) %s)", t.hi, t.lo, p.smt(t.args[0], true))
	case "zext":
		return fmt.Sprintf("((_ zero_extend %d) %s)", t.sort.W-t.args[0].sort.W, p.smt(t.args[0], true))
	case "not":
		return "(not " + p.smt(t.args[0], !pos) + ")"
	case "ite":
		return "(ite " + p.smt(t.args[0], false) + " " + p.smt(t.args[1], pos) + " " + p.smt(t.args[2], pos) + ")"
	case "=":
		if p.ring && t.args[0].sort.K == KF && !pos {
			name := "feq_" + t.args[0].sort.Name
			p.uf(name, SBool, t.args)
			side := func(a *Term) string {
				if a.op == "fadd" || a.op == "fsub" || a.op == "fmul" || a.op == "fneg" {
					if txt, ok := p.canonPoly(a); ok {
						return txt
					}
				}
				return p.smt(a, true)
			}
			// feq is uninterpreted, so its symmetry has to be built in: the two sides are printed in a fixed order
			l, r := side(t.args[0]), side(t.args[1])
			if l > r {
				l, r = r, l
			}
			return "(" + name + " " + l + " " + r + ")"
		}
		if t.args[0].sort.K == KBool {
			// polarity of sub-terms unknown under iff
			return "(= " + p.smt(t.args[0], false) + " " + p.smt(t.args[1], false) + ")"
		}
	case "fadd", "fsub", "fmul", "fneg":
		op := map[string]string{"fadd": "+", "fsub": "-", "fmul": "*", "fneg": "-"}[t.op]
		if !p.ring {
			op = t.op + "_" + t.sort.Name
			p.uf(op, t.sort, t.args)
		}
		var sb strings.Builder
		sb.WriteString("(" + op)
		var as []string
		for _, a := range t.args {
			sb.WriteByte(' ')
			as = append(as, p.smt(a, true))
			sb.WriteString(as[len(as)-1])
		}
		sb.WriteByte(')')
		if !p.ring && t.op == "fmul" && len(as) == 2 && as[0] != as[1] {
			// the field product is commutative: one ground instance per product printed (no reordering of
			// arguments, see FOp), so that code may commute the operands of a multiplication
			k := "comm:" + op + " " + as[0] + " " + as[1]
			if !p.seen[k] && !p.seen["comm:"+op+" "+as[1]+" "+as[0]] {
				p.seen[k] = true
				p.comm = append(p.comm, fmt.Sprintf("(assert (= (%s %s %s) (%s %s %s)))", op, as[0], as[1], op, as[1], as[0]))
			}
		}
		return sb.String()
	}
	op := t.op
	var sb strings.Builder
	sb.WriteString("(" + op)
	for _, a := range t.args {
		sb.WriteByte(' ')
		sb.WriteString(p.smt(a, pos))
	}
	sb.WriteByte(')')
	return sb.String()
}

// collect walks the DAG, counting references.
func collect(roots []*Term) (order []*Term, refs map[int]int) {
	refs = map[int]int{}
	seen := map[int]bool{}
	var walk func(t *Term)
	walk = func(t *Term) {
		refs[t.id]++
		if seen[t.id] {
			return
		}
		seen[t.id] = true
		for _, a := range t.args {
			walk(a)
		}
		order = append(order, t)
	}
	for _, r := range roots {
		walk(r)
	}
	return
}

// Script is an SMT-LIB script asserting all of hyps and the negation of goal.
type Script struct {
	Text   string
	OnlyBV bool
	Vars   []*Term
	Quant  bool
}

func BuildScript(hyps []*Term, goal *Term, rawAxioms []string, getVars []*Term, ring bool) *Script {
	roots := append([]*Term{}, hyps...)
	if goal != nil {
		roots = append(roots, goal)
	}
	order, refs := collect(roots)
	p := newPrinter(ring)
	var body strings.Builder
	for _, t := range order {
		if len(t.args) > 0 && refs[t.id] > 1 && t.sort.K != KBool {
			b := p.smt(t, true)
			n := fmt.Sprintf("n%d", t.id)
			fmt.Fprintf(&body, "(define-fun %s () %s %s)\n", n, t.sort, b)
			p.names[t.id] = n
		}
	}
	for _, h := range hyps {
		fmt.Fprintf(&body, "(assert %s)\n", p.smt(h, false))
	}
	if goal != nil {
		fmt.Fprintf(&body, "(assert (not %s))\n", p.smt(goal, true))
	}
	for _, c := range p.comm {
		body.WriteString(c + "\n")
	}
	body.WriteString("(check-sat)\n")
	gv := getVars
	if gv == nil {
		gv = p.vars
	}
	if len(gv) > 0 {
		body.WriteString("(get-value (")
		for _, v := range gv {
			body.WriteString(p.smt(v, true))
			body.WriteByte(' ')
		}
		body.WriteString("))\n")
	}
	var sb strings.Builder
	for _, d := range p.usorts {
		sb.WriteString(d + "\n")
	}
	for _, d := range p.decls {
		sb.WriteString(d + "\n")
	}
	for _, ax := range rawAxioms {
		sb.WriteString(ax + "\n")
		p.onlyBV = false
	}
	sb.WriteString(body.String())
	return &Script{Text: sb.String(), OnlyBV: p.onlyBV, Vars: p.vars, Quant: len(rawAxioms) > 0}
}

func termVars(t *Term, into map[*Term]bool) {
	seen := map[int]bool{}
	var walk func(t *Term)
	walk = func(t *Term) {
		if seen[t.id] {
			return
		}
		seen[t.id] = true
		if t.op == "var" {
			into[t] = true
		}
		for _, a := range t.args {
			walk(a)
		}
	}
	walk(t)
}

// fpolyOf reads a field term as a polynomial over Z in its non-arithmetic sub-terms (ring mode's reading of fadd,
// fsub, fmul, fneg). ok is false when the expansion grows beyond a few thousand monomials.
func fpolyOf(t *Term, budget *int) (Poly, bool) {
	if *budget <= 0 {
		return nil, false
	}
	switch t.op {
	case "const":
		p := Poly{}
		p.add(nil, t.val)
		return p, true
	case "fadd", "fsub":
		a, ok1 := fpolyOf(t.args[0], budget)
		b, ok2 := fpolyOf(t.args[1], budget)
		if !ok1 || !ok2 {
			return nil, false
		}
		r := Poly{}
		for _, m := range a {
			r.add(m.vars, m.coef)
		}
		for _, m := range b {
			c := m.coef
			if t.op == "fsub" {
				c = new(big.Int).Neg(c)
			}
			r.add(m.vars, c)
		}
		return r, true
	case "fneg":
		a, ok := fpolyOf(t.args[0], budget)
		if !ok {
			return nil, false
		}
		r := Poly{}
		for _, m := range a {
			r.add(m.vars, new(big.Int).Neg(m.coef))
		}
		return r, true
	case "fmul":
		a, ok1 := fpolyOf(t.args[0], budget)
		b, ok2 := fpolyOf(t.args[1], budget)
		if !ok1 || !ok2 {
			return nil, false
		}
		*budget -= len(a) * len(b)
		if *budget <= 0 {
			return nil, false
		}
		return polyMul(a, b), true
	}
	p := Poly{}
	p.add([]*Term{t}, big.NewInt(1))
	return p, true
}

func (p *printer) canonPoly(t *Term) (string, bool) {
	budget := 4000
	poly, ok := fpolyOf(t, &budget)
	if !ok {
		return "", false
	}
	var keys []string
	for k := range poly {
		keys = append(keys, k)
	}
	sort.Strings(keys)
	if len(keys) == 0 {
		return "0", true
	}
	var parts []string
	for _, k := range keys {
		m := poly[k]
		fs := []string{smtInt(m.coef)}
		for _, v := range m.vars {
			fs = append(fs, p.smt(v, true))
		}
		if len(fs) == 1 {
			parts = append(parts, fs[0])
		} else {
			parts = append(parts, "(* "+strings.Join(fs, " ")+")")
		}
	}
	if len(parts) == 1 {
		return parts[0], true
	}
	return "(+ " + strings.Join(parts, " ") + ")", true
}
