package main

import (
	"fmt"
	"math/big"
	"strings"
)

type bigInt = big.Int

type SoftGroup struct {
	Goal    *Term
	Order   int
	Proven  bool
	Members []*Oblig
	Origin  string
}

// stagedSoft turns the speculative lemma candidates of the current path into soft obligations.
func (ex *Exec) stagedSoft() []*SoftGroup {
	var groups []*SoftGroup
	facts := ex.hyps()
	for k, sl := range ex.st.spec {
		g := &SoftGroup{Goal: sl.Goal, Order: k, Origin: sl.Origin}
		pos := sl.Pos
		if pos > len(facts) {
			pos = len(facts)
		}
		for _, depth := range []int{2, 4, 0} {
			o := &Oblig{Name: ex.fn.QName() + "#lemma:" + ex.stabilise("lemma", sl.Origin), Info: sl.Origin, Func: ex.fn.QName(), Kind: "lemma",
				Hyps: facts[:pos], Goal: sl.Goal, Sub: fmt.Sprintf("%s/d%d", ex.pattern, depth), Inputs: ex.inputs,
				Pattern: ex.pattern, Soft: true, Depth: depth, Group: g}
			o.Lemmas = append([]*SoftGroup{}, groups...)
			g.Members = append(g.Members, o)
			ex.obligs = append(ex.obligs, o)
		}
		groups = append(groups, g)
	}
	return groups
}

// stagedPost emits the obligations for one ensures clause in staged mode.
func (ex *Exec) stagedPost(en *Clause, g *Term, groups []*SoftGroup, extra []*Term) {
	mk := func(label string, goal *Term, hyps []*Term, info string) *Oblig {
		o := ex.oblige("post", en.Name+label, goal, info)
		o.Props = en.Props
		o.Hyps = hyps
		o.Lemmas = groups
		if strings.HasSuffix(label, "/identity") {
			o.TimeMul = 3
		}
		return o
	}
	facts := append(ex.hyps(), extra...)
	if g.op == "app" && g.name == "modeq" && len(g.args) == 3 && g.args[2].IsConst() {
		A, B, M := g.args[0], g.args[1], g.args[2]
		B2 := atomize(B, ex.atoms)
		// link: B == B2 from the definitions of the product atoms (pure polynomial identity)
		var defs []*Term
		for _, a := range ex.atomList {
			defs = append(defs, Eq(a.atom, Mul(a.x, a.y)))
		}
		lo := mk("/link", Eq(B, B2), defs, "sum of product atoms equals the product of the operands")
		lo.Lemmas = nil
		lo.NoSlice = true
		// identity with the quotient words as witness
		var ks []*Term
		w := bi(1)
		for _, q := range ex.st.quot {
			ks = append(ks, Mul(IntC(w), q))
			w = new(bigInt).Mul(w, W64)
		}
		k := IntI(0)
		if len(ks) > 0 {
			k = Add(ks...)
		}
		Rc := IntC(bigR)
		goal := Or(
			Eq(A, Add(B2, Mul(k, M))),
			Eq(A, Add(B2, Mul(Sub(k, Rc), M))),
		)
		// case split on the final conditional subtraction (the only if-then-else in the result limbs)
		conds := map[*Term]bool{}
		var walk func(t *Term)
		seen := map[*Term]bool{}
		walk = func(t *Term) {
			if seen[t] {
				return
			}
			seen[t] = true
			if t.op == "ite" {
				conds[t.args[0]] = true
			}
			for _, a := range t.args {
				walk(a)
			}
		}
		walk(A)
		if len(conds) == 1 {
			for c := range conds {
				mk("/identity", goal, append(append([]*Term{}, facts...), c), "Montgomery identity (case: no final subtraction), witness k = quotient words: "+en.Text)
				mk("/identity", goal, append(append([]*Term{}, facts...), Not(c)), "Montgomery identity (case: final subtraction), witness k = quotient words: "+en.Text)
			}
			return
		}
		mk("/identity", goal, facts, "Montgomery identity with witness k = quotient words: "+en.Text)
		return
	}
	mk("", g, facts, en.Text)
}
