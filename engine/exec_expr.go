package main

import (
	"fmt"
	"go/ast"
	"go/constant"
	"go/token"
	"go/types"
	"math/big"
	"sort"
)

func (ex *Exec) typeOf(e ast.Expr) types.Type {
	tv, ok := ex.frame().pkg.Info.Types[e]
	if !ok {
		if id, ok := e.(*ast.Ident); ok {
			if o := ex.frame().pkg.Info.Uses[id]; o != nil {
				return o.Type()
			}
			if o := ex.frame().pkg.Info.Defs[id]; o != nil {
				return o.Type()
			}
		}
		ex.unsupported("no type for expression at %s", ex.where(e))
	}
	return tv.Type
}

func constToBig(v constant.Value) (*big.Int, bool) {
	switch v.Kind() {
	case constant.Int:
		if i, ok := constant.Int64Val(v); ok {
			return bi(i), true
		}
		b, ok := new(big.Int).SetString(v.ExactString(), 10)
		return b, ok
	case constant.Bool:
		if constant.BoolVal(v) {
			return bi(1), true
		}
		return bi(0), true
	case constant.Float:
		if constant.ToInt(v).Kind() == constant.Int {
			return constToBig(constant.ToInt(v))
		}
	}
	return nil, false
}

func (ex *Exec) zeroValue(t types.Type) Value {
	mt := machType(t)
	switch mt.Kind {
	case "int", "bool":
		return ex.constOf(bi(0), mt)
	case "error":
		return IntI(0)
	case "ptr":
		return PtrV{Typ: t.Underlying().(*types.Pointer).Elem()}
	case "slice":
		return SliceV{Elem: t.Underlying().(*types.Slice).Elem()}
	case "string":
		return StrV{}
	case "iface":
		return OpaqueV{Kind: "nil-iface"}
	case "float":
		return OpaqueV{Kind: "float", Data: new(big.Rat)}
	}
	switch t.Underlying().(type) {
	case *types.Array, *types.Struct:
		var leaves []leafInfo
		leafTypes(t, "", &leaves)
		cells := make([]Value, len(leaves))
		for i, l := range leaves {
			cells[i] = ex.zeroValue(l.Typ)
		}
		return AggV{Typ: t, Cells: cells}
	}
	ex.unsupported("zero value of %s", t)
	return nil
}

// coerce turns the untyped nil into the zero value of t.
func (ex *Exec) coerce(v Value, t types.Type) Value {
	if p, ok := v.(PtrV); ok && p.Obj == nil && p.Typ == nil {
		return ex.zeroValue(t)
	}
	return v
}

// store writes value v of type t at (obj, off).
func (ex *Exec) store(obj *Obj, off int, t types.Type, v Value) {
	v = ex.coerce(v, t)
	if obj == nil {
		ex.unsupported("store through nil pointer")
	}
	n := leafCount(t)
	if a, ok := v.(AggV); ok {
		if a.Sym != nil {
			if off != 0 || n != len(obj.Cells) {
				ex.unsupported("partial store of abstract array")
			}
			obj.Sym = a.Sym
			return
		}
		if len(a.Cells) != n {
			ex.unsupported("aggregate size mismatch in store: %d vs %d (%s)", len(a.Cells), n, t)
		}
		copy(obj.Cells[off:off+n], a.Cells)
		ex.noteWrite(obj, off, n)
		return
	}
	if n != 1 {
		ex.unsupported("scalar store into aggregate type %s", t)
	}
	if off >= len(obj.Cells) {
		ex.unsupported("store out of object bounds")
	}
	obj.Cells[off] = v
	ex.noteWrite(obj, off, 1)
}

func (ex *Exec) noteWrite(obj *Obj, off, n int) {
	if obj.Global {
		ex.oblige("frame", "global:"+obj.Name, BoolC(false), "write to package-level variable")
	}
	if obj.Pre {
		// remember every store into memory that existed before the call: a cell outside the modifies set must not be
		// written at all, not even with a value that is restored before the function returns (C15, C16)
		if ex.written == nil {
			ex.written = map[*Obj]map[int]string{}
		}
		if ex.written[obj] == nil {
			ex.written[obj] = map[int]string{}
		}
		for i := 0; i < n; i++ {
			if _, seen := ex.written[obj][off+i]; !seen {
				ex.written[obj][off+i] = ex.lastWhere
			}
		}
	}
}

func (ex *Exec) load(obj *Obj, off int, t types.Type) Value {
	if obj == nil {
		ex.oblige("safety", "nil-deref", BoolC(false), "")
		panic(pathEnd{"nil dereference"})
	}
	n := leafCount(t)
	switch t.Underlying().(type) {
	case *types.Array, *types.Struct:
		if obj.Sym != nil {
			return AggV{Typ: t, Sym: obj.Sym}
		}
		cells := append([]Value{}, obj.Cells[off:off+n]...)
		for i, c := range cells {
			cells[i] = ex.resolve(c)
		}
		return AggV{Typ: t, Cells: cells}
	}
	if off >= len(obj.Cells) {
		ex.unsupported("load out of object bounds (%s off %d)", obj.Name, off)
	}
	if t, ok := obj.Cells[off].(*Term); ok && t.op == "var" {
		if b, ok := ex.st.bind[t]; ok {
			obj.Cells[off] = b
			return b
		}
	}
	return obj.Cells[off]
}

// Loc is an lvalue.
type Loc struct {
	Obj *Obj
	Off int
	Typ types.Type
	// symbolic element access into an abstract array
	SymIdx *Term
}

func (ex *Exec) lookupVar(o types.Object) *Obj {
	if len(ex.frames) > 0 {
		// the innermost frame holds the locals visible here; a function literal also sees its enclosing frames
		for fm := ex.frames[len(ex.frames)-1]; fm != nil; fm = fm.parent {
			if v, ok := fm.vars[o]; ok {
				return v
			}
		}
	}
	if v, ok := ex.globals[o]; ok {
		return v
	}
	if vo, ok := o.(*types.Var); ok && vo.Parent() == vo.Pkg().Scope() {
		return ex.initGlobal(vo)
	}
	ex.unsupported("unknown variable %s", o.Name())
	return nil
}

func (ex *Exec) lvalue(e ast.Expr) Loc {
	switch e := e.(type) {
	case *ast.ParenExpr:
		return ex.lvalue(e.X)
	case *ast.Ident:
		info := ex.frame().pkg.Info
		o := info.Uses[e]
		if o == nil {
			o = info.Defs[e]
		}
		obj := ex.lookupVar(o)
		return Loc{Obj: obj, Off: 0, Typ: o.Type()}
	case *ast.StarExpr:
		p := ex.eval(e.X).(PtrV)
		if p.Obj == nil {
			ex.oblige("safety", "nil-deref@"+ex.where(e), BoolC(false), "")
			panic(pathEnd{"nil dereference"})
		}
		return Loc{Obj: p.Obj, Off: p.Off, Typ: p.Typ}
	case *ast.SelectorExpr:
		sel := ex.frame().pkg.Info.Selections[e]
		if sel == nil { // package-qualified variable
			o := ex.frame().pkg.Info.Uses[e.Sel]
			obj := ex.lookupVar(o)
			return Loc{Obj: obj, Typ: o.Type()}
		}
		if sel.Kind() != types.FieldVal {
			ex.unsupported("lvalue of method selection")
		}
		var base Loc
		xt := ex.typeOf(e.X)
		if pt, ok := xt.Underlying().(*types.Pointer); ok {
			p := ex.eval(e.X).(PtrV)
			if p.Obj == nil {
				ex.oblige("safety", "nil-deref@"+ex.where(e), BoolC(false), "")
				panic(pathEnd{"nil dereference"})
			}
			base = Loc{Obj: p.Obj, Off: p.Off, Typ: pt.Elem()}
		} else {
			base = ex.lvalue(e.X)
		}
		t := base.Typ
		off := base.Off
		for _, idx := range sel.Index() {
			if pt, ok := t.Underlying().(*types.Pointer); ok {
				p := ex.load(base.Obj, off, t).(PtrV)
				base.Obj, off, t = p.Obj, p.Off, pt.Elem()
			}
			st := t.Underlying().(*types.Struct)
			off += fieldOffset(st, idx)
			t = st.Field(idx).Type()
		}
		return Loc{Obj: base.Obj, Off: off, Typ: t}
	case *ast.IndexExpr:
		xt := ex.typeOf(e.X)
		idxV := ex.eval(e.Index).(*Term)
		switch u := xt.Underlying().(type) {
		case *types.Array:
			base := ex.lvalue(e.X)
			return ex.indexLoc(base.Obj, base.Off, int(u.Len()), u.Elem(), idxV, e)
		case *types.Pointer:
			at := u.Elem().Underlying().(*types.Array)
			p := ex.eval(e.X).(PtrV)
			if p.Obj == nil {
				ex.oblige("safety", "nil-deref@"+ex.where(e), BoolC(false), "")
				panic(pathEnd{"nil dereference"})
			}
			return ex.indexLoc(p.Obj, p.Off, int(at.Len()), at.Elem(), idxV, e)
		case *types.Slice:
			s := ex.eval(e.X).(SliceV)
			if s.Abs != nil {
				ex.unsupported("indexing an abstract byte slice at %s", ex.where(e))
			}
			if s.SymLen != nil {
				// contents of the "other length" class are not modelled; only the bounds check is
				ex.oblige("safety", "index@"+ex.where(e), And(Le(IntI(0), ex.idxInt(idxV)), Lt(ex.idxInt(idxV), s.SymLen)), "index into slice of unknown length")
				ex.unsupported("content access to a slice of the 'other length' class at %s", ex.where(e))
			}
			return ex.indexLoc(s.Obj, s.Off, s.Len, u.Elem(), idxV, e)
		}
	}
	ex.unsupported("lvalue %T at %s", e, ex.where(e))
	return Loc{}
}

func (ex *Exec) indexLoc(obj *Obj, off, n int, elem types.Type, idx *Term, e ast.Node) Loc {
	es := leafCount(elem)
	if idx.IsConst() {
		i := int(idx.val.Int64())
		if idx.val.Sign() < 0 || i >= n {
			ex.oblige("safety", "index@"+ex.where(e), BoolC(false), fmt.Sprintf("index %d out of range %d", i, n))
			panic(pathEnd{"index out of range"})
		}
		if obj != nil && obj.Sym != nil {
			return Loc{Obj: obj, Off: off, Typ: elem, SymIdx: ex.idxInt(idx)}
		}
		return Loc{Obj: obj, Off: off + i*es, Typ: elem}
	}
	// symbolic index
	ii := ex.idxInt(idx)
	ex.oblige("safety", "index@"+ex.where(e), And(Le(IntI(0), ii), Lt(ii, IntI(int64(n)))), "symbolic index in range")
	if obj != nil && obj.Sym != nil {
		return Loc{Obj: obj, Off: off, Typ: elem, SymIdx: ii}
	}
	ex.unsupported("symbolic index into concrete array at %s", ex.where(e))
	return Loc{}
}

func (ex *Exec) idxInt(t *Term) *Term {
	if t.sort.K == KBV {
		if t.IsConst() {
			return IntC(t.val)
		}
		ex.unsupported("symbolic bv index")
	}
	return t
}

func (ex *Exec) loadLoc(l Loc) Value {
	if l.SymIdx != nil {
		return ex.readSym(l.Obj.Sym, l.SymIdx)
	}
	return ex.load(l.Obj, l.Off, l.Typ)
}

func (ex *Exec) readSym(sa *SymArr, idx *Term) *Term {
	v := App(sa.Name, sa.Elem, idx)
	for _, lf := range ex.lazyForall {
		ex.st.addFact(Implies(And(Le(lf.lo, idx), Lt(idx, lf.hi)), lf.body(idx)), "forall-inst")
	}
	return v
}

func (ex *Exec) evalTerm(e ast.Expr) *Term {
	v := ex.eval(e)
	t, ok := v.(*Term)
	if !ok {
		ex.unsupported("expected scalar at %s, got %T", ex.where(e), v)
	}
	return t
}

func (ex *Exec) eval(e ast.Expr) Value {
	if ex.evalOverride != nil {
		if v, ok := ex.evalOverride[e]; ok {
			return v
		}
	}
	info := ex.frame().pkg.Info
	if tv, ok := info.Types[e]; ok && tv.Value != nil {
		mt := machType(tv.Type)
		switch mt.Kind {
		case "int", "bool":
			b, ok := constToBig(tv.Value)
			if !ok {
				ex.unsupported("constant %s", tv.Value)
			}
			return ex.constOf(b, mt)
		case "string":
			return StrV{constant.StringVal(tv.Value)}
		case "float":
			r, _ := new(big.Rat).SetString(tv.Value.ExactString())
			return OpaqueV{Kind: "float", Data: r}
		}
	}
	switch e := e.(type) {
	case *ast.ParenExpr:
		return ex.eval(e.X)
	case *ast.FuncLit:
		return ClosureV{Lit: e, Env: ex.frame()}
	case *ast.Ident:
		if e.Name == "nil" {
			t := ex.typeOf(e)
			if b, ok := t.(*types.Basic); ok && b.Kind() == types.UntypedNil {
				return PtrV{}
			}
			return ex.zeroValue(t)
		}
		o := info.Uses[e]
		if o == nil {
			o = info.Defs[e]
		}
		if _, ok := o.(*types.Nil); ok {
			return ex.zeroValue(ex.typeOf(e))
		}
		if v, ok := o.(*types.Var); ok {
			if machType(v.Type()).Kind == "error" && v.Parent() == v.Pkg().Scope() {
				return ex.errCode(v.Pkg().Name() + "." + v.Name())
			}
			obj := ex.lookupVar(o)
			return ex.load(obj, 0, o.Type())
		}
		ex.unsupported("identifier %s at %s", e.Name, ex.where(e))
	case *ast.StarExpr:
		return ex.loadLoc(ex.lvalue(e))
	case *ast.SelectorExpr:
		if sel := info.Selections[e]; sel != nil && sel.Kind() == types.FieldVal {
			return ex.loadLoc(ex.lvalue(e))
		}
		if o, ok := info.Uses[e.Sel].(*types.Var); ok { // pkg.Var
			if machType(o.Type()).Kind == "error" {
				return ex.errCode(o.Pkg().Name() + "." + o.Name())
			}
			if o.Pkg().Path() == "crypto/rand" && o.Name() == "Reader" {
				return OpaqueV{Kind: "rand.Reader"}
			}
			if o.Pkg().Path() == "encoding/binary" && (o.Name() == "BigEndian" || o.Name() == "LittleEndian") {
				return OpaqueV{Kind: "binary." + o.Name()}
			}
			return ex.loadLoc(ex.lvalue(e))
		}
		ex.unsupported("selector %s at %s", e.Sel.Name, ex.where(e))
	case *ast.IndexExpr:
		return ex.loadLoc(ex.lvalue(e))
	case *ast.UnaryExpr:
		if e.Op == token.AND {
			if cl, ok := unparen(e.X).(*ast.CompositeLit); ok {
				v := ex.eval(cl)
				t := ex.typeOf(cl)
				o := ex.st.newObj("lit@"+ex.where(e), t)
				o.Cells = make([]Value, leafCount(t))
				ex.storeInit(o, t, v)
				return PtrV{Obj: o, Typ: t}
			}
			l := ex.lvalue(e.X)
			if l.SymIdx != nil {
				ex.unsupported("address of abstract array element")
			}
			return PtrV{Obj: l.Obj, Off: l.Off, Typ: l.Typ}
		}
		x := ex.evalTerm(e.X)
		return ex.unop(e.Op, x, machType(ex.typeOf(e.X)), ex.where(e))
	case *ast.BinaryExpr:
		return ex.evalBinary(e)
	case *ast.CallExpr:
		return ex.evalCall(e)
	case *ast.CompositeLit:
		return ex.evalComposite(e)
	case *ast.SliceExpr:
		return ex.evalSliceExpr(e)
	}
	ex.unsupported("expression %T at %s", e, ex.where(e))
	return nil
}

func unparen(e ast.Expr) ast.Expr {
	for {
		p, ok := e.(*ast.ParenExpr)
		if !ok {
			return e
		}
		e = p.X
	}
}

func (ex *Exec) storeInit(o *Obj, t types.Type, v Value) {
	if a, ok := v.(AggV); ok {
		copy(o.Cells, a.Cells)
		return
	}
	o.Cells[0] = v
}

func (ex *Exec) errCode(name string) *Term {
	if c, ok := ex.errCodes[name]; ok {
		return IntI(c)
	}
	c := int64(len(ex.errCodes) + 1)
	ex.errCodes[name] = c
	return IntI(c)
}

func (ex *Exec) evalBinary(e *ast.BinaryExpr) Value {
	xt := ex.typeOf(e.X)
	mt := machType(xt)
	switch e.Op {
	case token.LAND, token.LOR:
		x := ex.evalTerm(e.X)
		if x.IsConst() {
			if (e.Op == token.LAND) == x.IsTrue() {
				return ex.evalTerm(e.Y)
			}
			return x
		}
		// fork so that the right operand is only evaluated when needed
		if ex.decide(x, ex.where(e)) {
			if e.Op == token.LOR {
				return BoolC(true)
			}
			return ex.evalTerm(e.Y)
		}
		if e.Op == token.LAND {
			return BoolC(false)
		}
		return ex.evalTerm(e.Y)
	}
	if mt.Kind == "ptr" || mt.Kind == "slice" || machType(ex.typeOf(e.Y)).Kind == "ptr" {
		isNil := func(a ast.Expr) bool { id, ok := unparen(a).(*ast.Ident); return ok && id.Name == "nil" }
		if isNil(e.X) || isNil(e.Y) {
			other := e.X
			if isNil(e.X) {
				other = e.Y
			}
			var n bool
			switch a := ex.eval(other).(type) {
			case PtrV:
				n = a.Obj == nil
			case SliceV:
				n = a.Obj == nil && a.Abs == nil
			default:
				ex.unsupported("nil comparison of %T", a)
			}
			if e.Op == token.NEQ {
				n = !n
			}
			return BoolC(n)
		}
		x, y := ex.eval(e.X), ex.eval(e.Y)
		var eq bool
		switch a := x.(type) {
		case PtrV:
			b := y.(PtrV)
			eq = a.Obj == b.Obj && (a.Obj == nil || a.Off == b.Off)
		case SliceV:
			b := y.(SliceV)
			if b.Obj != nil || b.Abs != nil {
				a, b = b, a
			}
			eq = a.Obj == nil && a.Abs == nil && b.Obj == nil && b.Abs == nil
		default:
			ex.unsupported("pointer comparison")
		}
		if e.Op == token.NEQ {
			eq = !eq
		}
		return BoolC(eq)
	}
	if mt.Kind == "error" || machType(ex.typeOf(e.Y)).Kind == "error" {
		errT := types.Universe.Lookup("error").Type()
		x, y := ex.coerce(ex.eval(e.X), errT).(*Term), ex.coerce(ex.eval(e.Y), errT).(*Term)
		if e.Op == token.EQL {
			return Eq(x, y)
		}
		return Not(Eq(x, y))
	}
	if mt.Kind == "float" {
		x, y := ex.eval(e.X).(OpaqueV), ex.eval(e.Y).(OpaqueV)
		if e.Op == token.QUO {
			return OpaqueV{Kind: "float", Data: new(big.Rat).Quo(x.Data.(*big.Rat), y.Data.(*big.Rat))}
		}
		ex.unsupported("float op")
	}
	x := ex.evalTerm(e.X)
	y := ex.evalTerm(e.Y)
	switch e.Op {
	case token.EQL, token.NEQ, token.LSS, token.LEQ, token.GTR, token.GEQ:
		return ex.cmpop(e.Op, x, y, mt)
	case token.SHL, token.SHR:
		if ex.mode.BV && y.sort.K == KBV && y.sort.W != x.sort.W {
			y = ZExt(y, x.sort.W)
		}
	}
	return ex.binop(e.Op, x, y, machType(ex.typeOf(e)), ex.where(e))
}

func (ex *Exec) evalComposite(e *ast.CompositeLit) Value {
	t := ex.typeOf(e)
	switch u := t.Underlying().(type) {
	case *types.Struct:
		z := ex.zeroValue(t).(AggV)
		for i, el := range e.Elts {
			idx := i
			var ve ast.Expr = el
			if kv, ok := el.(*ast.KeyValueExpr); ok {
				name := kv.Key.(*ast.Ident).Name
				for j := 0; j < u.NumFields(); j++ {
					if u.Field(j).Name() == name {
						idx = j
					}
				}
				ve = kv.Value
			}
			off := fieldOffset(u, idx)
			ex.putAgg(z.Cells[off:off+leafCount(u.Field(idx).Type())], ex.eval(ve))
		}
		return z
	case *types.Array:
		z := ex.zeroValue(t).(AggV)
		es := leafCount(u.Elem())
		for i, el := range e.Elts {
			if _, ok := el.(*ast.KeyValueExpr); ok {
				ex.unsupported("keyed array literal")
			}
			ex.putAgg(z.Cells[i*es:(i+1)*es], ex.eval(el))
		}
		return z
	case *types.Slice:
		n := len(e.Elts)
		at := types.NewArray(u.Elem(), int64(n))
		o := ex.st.newObj("slicelit@"+ex.where(e), at)
		o.Cells = make([]Value, n*leafCount(u.Elem()))
		es := leafCount(u.Elem())
		for i, el := range e.Elts {
			ex.putAgg(o.Cells[i*es:(i+1)*es], ex.eval(el))
		}
		return SliceV{Obj: o, Off: 0, Len: n, Cap: n, Elem: u.Elem()}
	}
	ex.unsupported("composite literal of %s", t)
	return nil
}

func (ex *Exec) putAgg(dst []Value, v Value) {
	if a, ok := v.(AggV); ok {
		if len(a.Cells) != len(dst) {
			ex.unsupported("aggregate size mismatch")
		}
		copy(dst, a.Cells)
		return
	}
	if len(dst) != 1 {
		ex.unsupported("scalar into aggregate slot")
	}
	dst[0] = v
}

func (ex *Exec) constInt(e ast.Expr, def int) int {
	if e == nil {
		return def
	}
	t := ex.evalTerm(e)
	for !t.IsConst() && t.op == "ite" {
		// a bound selected among constants: fork on the selector
		if ex.decide(t.args[0], ex.where(e)) {
			t = t.args[1]
		} else {
			t = t.args[2]
		}
	}
	if !t.IsConst() {
		// a bound that can only take a few values (arithmetic on flags): fork on the value
		if vs := ex.smallValues(t, 0); len(vs) > 0 && len(vs) <= 4 {
			for i, v := range vs {
				if i == len(vs)-1 || ex.decide(Eq(t, IntC(v)), ex.where(e)) {
					if i == len(vs)-1 {
						ex.st.addFact(Eq(t, IntC(v)), "only remaining value of "+ex.where(e))
					}
					return int(v.Int64())
				}
			}
		}
	}
	if !t.IsConst() {
		ex.unsupported("non-constant slice bound at %s", ex.where(e))
	}
	return int(t.val.Int64())
}

func (ex *Exec) evalSliceExpr(e *ast.SliceExpr) Value {
	xt := ex.typeOf(e.X)
	var obj *Obj
	var off, ln, cp int
	var elem types.Type
	switch u := xt.Underlying().(type) {
	case *types.Array:
		l := ex.lvalue(e.X)
		obj, off, ln, cp, elem = l.Obj, l.Off, int(u.Len()), int(u.Len()), u.Elem()
	case *types.Pointer:
		at := u.Elem().Underlying().(*types.Array)
		p := ex.eval(e.X).(PtrV)
		obj, off, ln, cp, elem = p.Obj, p.Off, int(at.Len()), int(at.Len()), at.Elem()
	case *types.Slice:
		s := ex.eval(e.X).(SliceV)
		if s.Abs != nil {
			return ex.sliceAbs(s, e)
		}
		obj, off, ln, cp, elem = s.Obj, s.Off, s.Len, s.Cap, u.Elem()
	default:
		ex.unsupported("slice of %s", xt)
	}
	lo := ex.constInt(e.Low, 0)
	hi := ex.constInt(e.High, ln)
	mx := cp
	if e.Slice3 {
		mx = ex.constInt(e.Max, cp)
	}
	if lo < 0 || lo > hi || hi > cp || mx > cp || hi > mx {
		ex.oblige("safety", "slice-bounds@"+ex.where(e), BoolC(false), fmt.Sprintf("slice [%d:%d:%d] of cap %d", lo, hi, mx, cp))
		panic(pathEnd{"slice bounds"})
	}
	es := leafCount(elem)
	if obj == nil && hi == 0 {
		return SliceV{Elem: elem}
	}
	return SliceV{Obj: obj, Off: off + lo*es, Len: hi - lo, Cap: mx - lo, Elem: elem}
}

// smallValues returns the finite set of values an integer term can take when that set is syntactically evident
// (constants, flags with a known range of at most 4, if-then-else, sums and products of such), or nil.
func (ex *Exec) smallValues(t *Term, depth int) []*big.Int {
	if depth > 8 {
		return nil
	}
	uniq := func(vs []*big.Int) []*big.Int {
		sort.Slice(vs, func(i, j int) bool { return vs[i].Cmp(vs[j]) < 0 })
		var out []*big.Int
		for _, v := range vs {
			if len(out) == 0 || out[len(out)-1].Cmp(v) != 0 {
				out = append(out, v)
			}
		}
		if len(out) > 16 {
			return nil
		}
		return out
	}
	switch {
	case t.IsConst():
		return []*big.Int{t.val}
	case t.op == "ite":
		a, b := ex.smallValues(t.args[1], depth+1), ex.smallValues(t.args[2], depth+1)
		if a == nil || b == nil {
			return nil
		}
		return uniq(append(append([]*big.Int{}, a...), b...))
	case t.op == "+" || t.op == "*":
		acc := []*big.Int{bi(0)}
		if t.op == "*" {
			acc = []*big.Int{bi(1)}
		}
		for _, a := range t.args {
			vs := ex.smallValues(a, depth+1)
			if vs == nil {
				return nil
			}
			var next []*big.Int
			for _, x := range acc {
				for _, y := range vs {
					if t.op == "+" {
						next = append(next, new(big.Int).Add(x, y))
					} else {
						next = append(next, new(big.Int).Mul(x, y))
					}
				}
			}
			if acc = uniq(next); acc == nil {
				return nil
			}
		}
		return acc
	}
	if ub, ok := ex.st.ranges[t]; ok && ub.Cmp(bi(4)) <= 0 {
		var vs []*big.Int
		for i := int64(0); i < ub.Int64(); i++ {
			vs = append(vs, bi(i))
		}
		return vs
	}
	return nil
}
