package main

import (
	"fmt"
	"go/ast"
	"go/token"
	"go/types"
	"math/big"
	"sort"
	"strings"
)

type paramInfo struct {
	name  string
	ident *ast.Ident
	typ   types.Type
}

func funcParams(fr *FuncRef) []paramInfo {
	names, idents := paramNames(fr.Decl)
	var out []paramInfo
	for i, n := range names {
		var t types.Type
		if idents[i] != nil {
			t = fr.Pkg.Info.Defs[idents[i]].Type()
		}
		out = append(out, paramInfo{n, idents[i], t})
	}
	return out
}

// partitions enumerates set partitions of n items as class index vectors.
func partitions(n int) [][]int {
	var out [][]int
	cur := make([]int, n)
	var rec func(i, k int)
	rec = func(i, k int) {
		if i == n {
			out = append(out, append([]int{}, cur...))
			return
		}
		for c := 0; c <= k; c++ {
			cur[i] = c
			nk := k
			if c == k {
				nk = k + 1
			}
			rec(i+1, nk)
		}
	}
	if n == 0 {
		return [][]int{{}}
	}
	rec(0, 0)
	return out
}

type caseSpec struct {
	label   string
	nilSet  map[string]bool
	classOf map[string]string // pointer param -> representative param name
	lens    map[string]int
}

func (v *Verifier) enumerateCases(fr *FuncRef, fc *FuncContract) []caseSpec {
	ps := funcParams(fr)
	var nilable []string
	for _, p := range ps {
		if fc.Nilable[p.name] {
			nilable = append(nilable, p.name)
		}
	}
	var lenParams []string
	for _, p := range ps {
		if _, ok := fc.Lens[p.name]; ok {
			lenParams = append(lenParams, p.name)
		}
	}
	var cases []caseSpec
	for mask := 0; mask < 1<<len(nilable); mask++ {
		nilSet := map[string]bool{}
		for i, n := range nilable {
			if mask&(1<<i) != 0 {
				nilSet[n] = true
			}
		}
		// group non-nil pointer params by underlying pointee type
		groups := map[string][]string{}
		var gkeys []string
		for _, p := range ps {
			if p.typ == nil || nilSet[p.name] {
				continue
			}
			if pt, ok := p.typ.Underlying().(*types.Pointer); ok {
				k := pt.Elem().Underlying().String()
				if _, ok := groups[k]; !ok {
					gkeys = append(gkeys, k)
				}
				groups[k] = append(groups[k], p.name)
			}
		}
		// cartesian product of partitions per group
		classSets := []map[string]string{{}}
		for _, k := range gkeys {
			g := groups[k]
			var parts [][]int
			if fc.NoAlias {
				id := make([]int, len(g))
				for i := range id {
					id[i] = i
				}
				parts = [][]int{id}
			} else {
				parts = partitions(len(g))
			}
			var next []map[string]string
			for _, cs := range classSets {
				for _, part := range parts {
					m := map[string]string{}
					for a, b := range cs {
						m[a] = b
					}
					rep := map[int]string{}
					for i, c := range part {
						if _, ok := rep[c]; !ok {
							rep[c] = g[i]
						}
						m[g[i]] = rep[c]
					}
					next = append(next, m)
				}
			}
			classSets = next
		}
		// lens product
		lensSets := []map[string]int{{}}
		for _, lp := range lenParams {
			var next []map[string]int
			for _, ls := range lensSets {
				for _, n := range fc.Lens[lp] {
					m := map[string]int{}
					for a, b := range ls {
						m[a] = b
					}
					m[lp] = n
					next = append(next, m)
				}
			}
			lensSets = next
		}
		for _, cs := range classSets {
			for _, ls := range lensSets {
				var lab []string
				var names []string
				for n := range cs {
					names = append(names, n)
				}
				sort.Strings(names)
				for _, n := range names {
					if cs[n] != n {
						lab = append(lab, n+"="+cs[n])
					}
				}
				var nn []string
				for n := range nilSet {
					nn = append(nn, n)
				}
				sort.Strings(nn)
				for _, n := range nn {
					lab = append(lab, n+"=nil")
				}
				var ln []string
				for n := range ls {
					ln = append(ln, n)
				}
				sort.Strings(ln)
				for _, n := range ln {
					if ls[n] == -1 {
						lab = append(lab, fmt.Sprintf("len(%s)=other", n))
					} else {
						lab = append(lab, fmt.Sprintf("len(%s)=%d", n, ls[n]))
					}
				}
				l := strings.Join(lab, ",")
				if l == "" {
					l = "distinct"
				}
				cases = append(cases, caseSpec{l, nilSet, cs, ls})
			}
		}
	}
	return cases
}

type Verifier struct {
	invProjFor  map[string]bool // functions to verify with invariant projections (establishers)
	renameNotes []string        // contracts adapted to renamed parameters/locals (function: old->new)
	gidx        *globalIndex
	cfgLabel    string   // non-empty when this run analyses an alternative build configuration (C17)
	altCfgs     []string // alternative configurations that were analysed as well
	stdConf     map[string]interface{}
	replayTag   string // sub-directory of build/replay used by this run (one per property, so concurrent checks do not collide)
	prog        *Program
	specs       *Specs
	lastExec    *Exec
	schedMode   bool
	mustFail    map[string]bool
	bounded     map[string]interface{}
	specCheck   map[string]interface{}
	sweep       map[string]interface{}
}

func modeOf(name string) Mode {
	switch name {
	case "bv":
		return Mode{Name: "bv", BV: true}
	case "staged":
		return Mode{Name: "staged", Staged: true}
	}
	return Mode{Name: name}
}

func (v *Verifier) newExec(fr *FuncRef, fc *FuncContract) *Exec {
	ex := &Exec{prog: v.prog, specs: v.specs, fn: fr, fc: fc, callCount: map[string]int{},
		globals: map[types.Object]*Obj{}, errCodes: map[string]int64{}, ghost: map[string]*Term{},
		atoms: map[[2]*Term]*Term{}, usedModels: map[string]bool{}, usedLemmas: map[string]bool{},
		havocVars: map[*Term]bool{}, calledContracts: map[string]bool{}, inputs: map[string]*Term{}}
	if fc != nil {
		ex.mode = modeOf(fc.Mode)
	}
	return ex
}

func (ex *Exec) resetPath() {
	TS.fresh = 0
	ex.st = &State{ranges: map[*Term]*big.Int{}, bind: map[*Term]*Term{}}
	ex.pos = 0
	ex.frames = nil
	ex.loopCount = 0
	ex.callCount = map[string]int{}
	ex.globals = map[types.Object]*Obj{}
	ex.lazyForall = nil
	ex.atoms = map[[2]*Term]*Term{}
	ex.atomList = nil
	ex.havocVars = map[*Term]bool{}
	ex.steps = 0
	ex.inputs = map[string]*Term{}
	ex.symCount = 0
	ex.ordSeen = nil
	ex.hex = nil
	ex.bigVals = nil
	ex.written = nil
	ex.wordBytesOf = nil
	ex.evalOverride = nil
	ex.brLabel, ex.pendingLabel = "", ""
	for k := range ex.ghost {
		delete(ex.ghost, k)
	}
	powMode = ex.mode.Name == "pow"
}

// setupParams creates the symbolic entry state for one aliasing/nil/length case.
func (ex *Exec) setupParams(cs caseSpec) []Value {
	ps := funcParams(ex.fn)
	objOf := map[string]*Obj{}
	var args []Value
	for _, p := range ps {
		if p.typ == nil {
			args = append(args, nil)
			continue
		}
		switch u := p.typ.Underlying().(type) {
		case *types.Pointer:
			if cs.nilSet[p.name] {
				args = append(args, PtrV{Typ: u.Elem()})
				continue
			}
			rep := cs.classOf[p.name]
			o, ok := objOf[rep]
			if !ok {
				o = ex.symObj(rep, u.Elem())
				o.Pre, o.Param = true, true
				objOf[rep] = o
			}
			args = append(args, PtrV{Obj: o, Typ: u.Elem()})
		case *types.Slice:
			n, ok := cs.lens[p.name]
			if !ok {
				args = append(args, ex.absParamSlice(p.name, u))
				continue
			}
			if n == -1 { // any length not listed in the lens directive
				ln := Fresh("len("+p.name+")", SInt)
				ex.st.ranges[ln] = pow2(62)
				var others []*Term
				for _, k := range ex.fc.Lens[p.name] {
					if k >= 0 {
						others = append(others, Not(Eq(ln, IntI(int64(k)))))
					}
				}
				ex.st.addFact(And(others...), "other length class")
				o := ex.symObj(p.name, types.NewArray(u.Elem(), 0))
				o.Pre, o.Param = true, true
				ex.inputs["len("+p.name+")"] = ln
				args = append(args, SliceV{Obj: o, Len: 0, Cap: 0, Elem: u.Elem(), SymLen: ln})
				continue
			}
			if n < 0 {
				args = append(args, SliceV{Elem: u.Elem()})
				continue
			}
			o := ex.symObj(p.name, types.NewArray(u.Elem(), int64(n)))
			o.Pre, o.Param = true, true
			sc := Fresh(p.name+".sparecap", SInt)
			ex.st.ranges[sc] = pow2(40)
			o.SpareCap = sc
			ex.inputs["sparecap("+p.name+")"] = sc
			args = append(args, SliceV{Obj: o, Len: n, Cap: n, Elem: u.Elem()})
		case *types.Array, *types.Struct:
			o := ex.symObj(p.name, p.typ)
			args = append(args, AggV{Typ: p.typ, Cells: o.Cells})
		default:
			mt := machType(p.typ)
			switch mt.Kind {
			case "int", "bool":
				if n, ok := cs.lens[p.name]; ok {
					args = append(args, ex.constOf(bi(int64(n)), mt))
					continue
				}
				t := ex.namedWord(p.name, mt)
				ex.inputs[p.name] = t
				args = append(args, t)
			case "string":
				args = append(args, OpaqueV{Kind: "string", Data: p.name})
				ex.specVarsExtra = append(ex.specVarsExtra, p.name)
			default:
				args = append(args, OpaqueV{Kind: "param:" + p.name})
			}
		}
	}
	return args
}

func (ex *Exec) symObj(name string, t types.Type) *Obj {
	if strings.Count(name, "^") > 2 {
		ex.unsupported("recursive pointer-holding data structure %s (type %s) is outside the supported subset", name, t)
	}
	o := ex.st.newObj(name, t)
	var leaves []leafInfo
	leafTypes(t, name, &leaves)
	o.Cells = make([]Value, len(leaves))
	for i, l := range leaves {
		mt := machType(l.Typ)
		switch mt.Kind {
		case "int", "bool":
			v := ex.namedWord(l.Path, mt)
			o.Cells[i] = v
			ex.inputs[l.Path] = v
		case "ptr":
			// nested pointer inside a parameter object: give it its own object
			pt := l.Typ.Underlying().(*types.Pointer).Elem()
			inner := ex.symObj(l.Path+"^", pt)
			inner.Pre, inner.Param = true, true
			o.Cells[i] = PtrV{Obj: inner, Typ: pt}
		default:
			ex.unsupported("parameter leaf %s of type %s", l.Path, l.Typ)
		}
	}
	o.Init = append([]Value{}, o.Cells...)
	return o
}

func (ex *Exec) entryCtx() *SpecCtx {
	return &SpecCtx{ex: ex, vars: ex.specVars, old: ex.entry, inOld: true, pkg: ex.fn.Pkg}
}

// VerifyFunc symbolically executes fr against its contract and returns the obligations.
func (v *Verifier) VerifyFunc(fr *FuncRef, fc *FuncContract) (obs []*Oblig, err error) {
	ex := v.newExec(fr, fc)
	ex.schedMode = v.schedMode
	ex.invProj = v.invProjFor[fr.QName()]
	defer func() {
		if r := recover(); r != nil {
			if ee, ok := r.(engineError); ok {
				err = fmt.Errorf("%s: %s", fr.QName(), ee.msg)
				return
			}
			panic(r)
		}
	}()
	cases := v.enumerateCases(fr, fc)
	for _, cs := range cases {
		ex.pattern = cs.label
		ex.script = nil
		npaths := 0
		for {
			npaths++
			if npaths > 4000 {
				ex.unsupported("more than 4000 paths in one aliasing case: path explosion")
			}
			ex.runPath(cs)
			// next decision vector
			for len(ex.script) > 0 && !ex.script[len(ex.script)-1] {
				ex.script = ex.script[:len(ex.script)-1]
			}
			if len(ex.script) == 0 {
				break
			}
			ex.script[len(ex.script)-1] = false
		}
		ex.schedObligations()
	}
	v.lastExec = ex
	return ex.obligs, nil
}

func (ex *Exec) runPath(cs caseSpec) {
	ex.resetPath()
	fc := ex.fc
	args := ex.setupParams(cs)
	// ghost variables
	for name, s := range ghostDecls {
		g := Var("ghost."+name, s)
		ex.ghost[name] = g
	}
	ex.trace = nil
	if ex.schedMode {
		ex.trace = Var("tr@entry", STr)
	}
	fm := &Frame{pkg: ex.fn.Pkg, fn: ex.fn, vars: map[types.Object]*Obj{}}
	ex.frames = []*Frame{fm}
	names, idents := paramNames(ex.fn.Decl)
	ex.specVars = map[string]Value{}
	for i, id := range idents {
		if id == nil || id.Name == "_" {
			continue
		}
		o := ex.fn.Pkg.Info.Defs[id]
		ex.declare(id, o.Type(), args[i])
		switch a := args[i].(type) {
		case AggV:
			ex.specVars[names[i]] = PtrV{Obj: fm.vars[o], Typ: o.Type()}
			fm.vars[o].Init = append([]Value{}, a.Cells...)
		default:
			ex.specVars[names[i]] = args[i]
		}
	}
	ex.entry = ex.snapshot()
	ghostEntry := map[string]*Term{}
	for k, g := range ex.ghost {
		ghostEntry[k] = g
	}
	ex.ghostEntry = ghostEntry
	// assume preconditions
	pre := &SpecCtx{ex: ex, vars: ex.specVars, old: ex.entry, pkg: ex.fn.Pkg, assume: true}
	ex.preFalse = false
	for _, rq := range fc.Requires {
		t := pre.term(rq.Expr)
		if t.IsFalse() {
			ex.preFalse = true // this aliasing/nil/length case is excluded by the precondition itself
		}
		ex.tightenRange(t)
		ex.st.addFact(t, "requires")
	}
	ex.nPreFacts = len(ex.st.facts)
	usectx := &SpecCtx{ex: ex, vars: ex.specVars, old: ex.entry, pkg: ex.fn.Pkg}
	for _, u := range fc.Uses {
		ex.st.addFact(usectx.tryTerm(u), "uses")
	}
	// named results
	if ex.fn.Decl.Type.Results != nil {
		for _, f := range ex.fn.Decl.Type.Results.List {
			for _, n := range f.Names {
				ex.declare(n, ex.fn.Pkg.Info.Defs[n].Type(), nil)
			}
		}
	}
	func() {
		defer func() {
			if r := recover(); r != nil {
				if _, ok := r.(pathEnd); ok {
					return
				}
				panic(r)
			}
		}()
		ex.execBlock(ex.fn.Decl.Body.List)
		ex.runDefers()
		if ex.trace != nil {
			ex.segs = append(ex.segs, schedSeg{"to-return", ex.trace, ex.hyps(), ex.pathLabel()})
		}
		if len(fm.results) == 0 && ex.fn.Decl.Type.Results != nil {
			// bare return (or falling off the end) with named results
			for _, f := range ex.fn.Decl.Type.Results.List {
				for _, n := range f.Names {
					o := ex.fn.Pkg.Info.Defs[n]
					fm.results = append(fm.results, ex.load(fm.vars[o], 0, o.Type()))
				}
			}
		}
		ex.atReturn(fm.results)
	}()
	registerRanges(ex.st)
}

// modifiedSet evaluates the modifies clauses at entry into a set of (object, cell) pairs.
func (ex *Exec) modifiedSet() map[*Obj]map[int]bool {
	set := map[*Obj]map[int]bool{}
	add := func(o *Obj, off, n int) {
		if set[o] == nil {
			set[o] = map[int]bool{}
		}
		for i := 0; i < n; i++ {
			set[o][off+i] = true
		}
	}
	ctx := &SpecCtx{ex: ex, vars: ex.specVars, old: ex.entry, inOld: true, pkg: ex.fn.Pkg}
	for _, m := range ex.fc.Modifies {
		if id, ok := m.(*ast.Ident); ok {
			if _, isGhost := ex.ghost[id.Name]; isGhost {
				continue
			}
		}
		var v Value
		if se, ok := m.(*ast.StarExpr); ok {
			v = ctx.eval(se.X)
		} else {
			v = ctx.eval(m)
		}
		switch p := v.(type) {
		case PtrV:
			if p.Obj != nil {
				add(p.Obj, p.Off, leafCount(p.Typ))
			}
		case SliceV:
			if p.Obj != nil {
				add(p.Obj, p.Off, p.Len)
			}
		default:
			ex.unsupported("modifies clause %s: unsupported place (%T)", exprStr(m), v)
		}
	}
	return set
}

func (ex *Exec) atReturn(results []Value) {
	fc := ex.fc
	if ex.coverCount[ex.pattern] < 3 && !ex.preFalse && !ex.mode.Staged {
		// vacuity guard: precondition, lemma hints and callee postconditions along some complete path are consistent
		if ex.coverCount == nil {
			ex.coverCount = map[string]int{}
		}
		ex.coverCount[ex.pattern]++
		o := ex.oblige("cover", "path-feasible", BoolC(false), "some path from entry to return is feasible (precondition, hints and callee contracts are jointly satisfiable)")
		o.Cover = true
		o.NoSlice = true
	}
	ex.results = results
	vars := map[string]Value{}
	for k, v := range ex.specVars {
		vars[k] = v
	}
	bindResults(vars, results)
	ctx := &SpecCtx{ex: ex, vars: vars, old: ex.entry, pkg: ex.fn.Pkg, locals: ex.frames[0]}
	// returns
	rts := resultTypes(ex.fn)
	for i, how := range fc.Returns {
		if i >= len(results) || how == "" {
			continue
		}
		if machType(rts[i]).Kind != "ptr" && machType(rts[i]).Kind != "slice" {
			continue
		}
		var ok bool
		switch r := results[i].(type) {
		case PtrV:
			switch how {
			case "fresh":
				ok = r.Obj != nil && !r.Obj.Pre
			case "nil":
				ok = r.Obj == nil
			default:
				p, isP := ex.specVars[how].(PtrV)
				ok = isP && p.Obj == r.Obj && p.Off == r.Off
			}
		case SliceV:
			ok = r.Abs != nil || r.Obj != nil && !r.Obj.Pre && !r.Obj.Global
			if strings.HasPrefix(how, "fresh:$") {
				if t, isT := ex.specVars[how[7:]].(*Term); isT && t.IsConst() {
					how = "fresh:" + t.val.String()
				}
			}
			if strings.HasPrefix(how, "fresh:") {
				okLen := false
				for _, a := range strings.Split(how[6:], "|") {
					var n int
					fmt.Sscanf(a, "%d", &n)
					okLen = okLen || r.Len == n
				}
				ok = ok && okLen
			}
		}
		ex.oblige("post", "returns", BoolC(ok), fmt.Sprintf("result %d must be %s", i, how)).Props = fc.Props
	}
	// lemmas that follow from the precondition alone (possibly non-linear); their atomised form is a fact afterwards
	var extra []*Term
	for _, pl := range fc.PreLemmas {
		g := ctx.term(pl.Expr)
		o := ex.oblige("prelemma", pl.Name, g, pl.Text)
		o.Hyps = nil
		for i := 0; i < ex.nPreFacts && i < len(ex.st.facts); i++ {
			o.Hyps = append(o.Hyps, ex.st.facts[i].T)
		}
		extra = append(extra, atomizeBool(g, ex.atoms))
	}
	var groups []*SoftGroup
	if ex.mode.Staged {
		groups = ex.stagedSoft()
	}
	for _, en := range fc.Ensures {
		g := ctx.term(en.Expr)
		if ex.mode.Staged {
			ex.stagedPost(en, g, groups, extra)
			continue
		}
		o := ex.oblige("post", en.Name, g, en.Text)
		o.Props = en.Props
		o.Ring = ex.mode.Name == "ring"
		o.Hyps = append(o.Hyps, extra...)
		for _, by := range en.By {
			o.Hyps = append(o.Hyps, ctx.tryTerm(by))
		}
	}
	// invariant projections (only for functions that are in a cone as establishers of a representation invariant the
	// property's own functions rely on): the conjuncts of each postcondition that speak about inv/wf3/wfs
	if ex.invProj && !ex.mode.Staged {
		for _, en := range fc.Ensures {
			pr := projectInv(en.Expr)
			if pr == nil {
				continue
			}
			o := ex.oblige("post", en.Name+"/inv", ctx.term(pr), "representation-invariant part of: "+en.Text)
			o.Props = en.Props
			o.Ring = ex.mode.Name == "ring"
			o.Hyps = append(o.Hyps, extra...)
			for _, by := range en.By {
				o.Hyps = append(o.Hyps, ctx.tryTerm(by))
			}
		}
	}
	// derived clauses: consequences of the precondition, the (separately proved) postconditions and lemma instances
	var base []*Term
	for i := 0; i < ex.nPreFacts && i < len(ex.st.facts); i++ {
		base = append(base, ex.st.facts[i].T)
	}
	for _, en := range fc.Ensures {
		base = append(base, ctx.term(en.Expr))
	}
	for _, dv := range fc.Derives {
		g := ctx.term(dv.Expr)
		o := ex.oblige("derive", dv.Name, g, dv.Text)
		o.Props = dv.Props
		o.Hyps = append([]*Term{}, base...)
		for _, by := range dv.By {
			o.Hyps = append(o.Hyps, ctx.tryTerm(by))
		}
		if pr := projectInv(dv.Expr); ex.invProj && pr != nil {
			oi := ex.oblige("derive", dv.Name+"/inv", ctx.term(pr), "representation-invariant part of: "+dv.Text)
			oi.Props = dv.Props
			oi.Hyps = append([]*Term{}, o.Hyps...)
		}
		base = append(base, g)
	}
	// frame
	mod := ex.modifiedSet()
	for _, o := range ex.st.objs {
		if !o.Pre || o.Init == nil {
			continue
		}
		var parts []*Term
		info := "cells outside modifies are unchanged"
		for i, c := range o.Cells {
			if mod[o][i] || i >= len(o.Init) {
				continue
			}
			ct, ok1 := c.(*Term)
			it, ok2 := o.Init[i].(*Term)
			if ok1 && ok2 {
				parts = append(parts, Eq(ct, it))
			}
			if w, wr := ex.written[o][i]; wr && !o.Global {
				// stored to during the call: a violation even if the old value is back at the end (another
				// goroutine reading the argument would see the intermediate value, and race with the store)
				parts = append(parts, BoolC(false))
				info = "cell " + fmt.Sprint(i) + " outside modifies is written during the call (" + w + "), whatever value it ends with"
			}
		}
		g := And(parts...)
		ob := ex.oblige("frame", o.Name, g, info)
		ob.Props = fc.Props
	}
}

var ghostDecls = map[string]Sort{"rnd": SInt, "rndfail": SBool}

// schedObligations: within one aliasing case, all paths of a segment kind must execute the same sequence of
// module-function entries (C19). Paths satisfying the contract's sched_except condition are exempt.
func (ex *Exec) schedObligations() {
	if !ex.schedMode || len(ex.segs) == 0 {
		ex.segs = nil
		return
	}
	groups := map[string][]schedSeg{}
	var order []string
	for _, sg := range ex.segs {
		root := sg.trace
		for root.op == "app" && len(root.args) == 1 {
			root = root.args[0]
		}
		k := sg.kind + " from " + root.name
		if _, ok := groups[k]; !ok {
			order = append(order, k)
		}
		groups[k] = append(groups[k], sg)
	}
	var except *Term
	if ex.fc.SchedExcept != nil {
		c := &SpecCtx{ex: ex, vars: ex.specVars, old: ex.entry, inOld: true, pkg: ex.fn.Pkg}
		except = c.tryTerm(ex.fc.SchedExcept)
		if except.IsTrue() { // not evaluable in this case (nil parameter): no exception applies
			except = nil
		}
	}
	hasLoop := false
	for _, k := range order {
		if strings.HasPrefix(k, "entry-to-loop") {
			hasLoop = true
		}
	}
	for _, k := range order {
		g := groups[k]
		if hasLoop && k == "to-return from tr@entry" {
			// a path that returns without reaching the loop the other paths reach: only the documented exception may do so
			for _, sg := range g {
				goal := BoolC(false)
				if except != nil {
					goal = except
				}
				o := ex.oblige("sched", "uniform:early-return", goal, "only the documented shortcut may bypass the loop")
				o.Hyps = sg.hyps
				o.Sub = ex.pattern + "/" + sg.path
				o.Props = []string{"C19"}
			}
			continue
		}
		ref := g[0].trace
		for _, sg := range g { // the reference is the longest schedule (shortcut paths are shorter)
			if depth(sg.trace) > depth(ref) {
				ref = sg.trace
			}
		}
		for _, sg := range g {
			goal := Eq(sg.trace, ref)
			if except != nil {
				goal = Or(except, goal)
			}
			o := ex.oblige("sched", "uniform:"+k, goal, "all paths of this segment enter the same module functions in the same order")
			o.Hyps = sg.hyps
			o.Sub = ex.pattern + "/" + sg.path
			o.Props = []string{"C19"}
		}
	}
	ex.segs = nil
}

func depth(t *Term) int {
	n := 0
	for t.op == "app" && len(t.args) == 1 {
		t = t.args[0]
		n++
	}
	return n
}

// invariantPreds are the representation-invariant predicates of the API-level types.
var invariantPreds = map[string]bool{"inv": true, "wf3": true, "wfs": true}

// projectInv keeps the conjuncts of a clause that are applications of an invariant predicate (under the same
// implications); nil when there are none.
func projectInv(e ast.Expr) ast.Expr {
	switch x := e.(type) {
	case *ast.ParenExpr:
		return projectInv(x.X)
	case *ast.BinaryExpr:
		if x.Op == token.LAND {
			a, b := projectInv(x.X), projectInv(x.Y)
			switch {
			case a == nil:
				return b
			case b == nil:
				return a
			}
			return &ast.BinaryExpr{X: a, Op: token.LAND, Y: b}
		}
	case *ast.CallExpr:
		if id, ok := x.Fun.(*ast.Ident); ok {
			if invariantPreds[id.Name] {
				return x
			}
			if id.Name == "imp" && len(x.Args) == 2 {
				if c := projectInv(x.Args[1]); c != nil {
					return &ast.CallExpr{Fun: x.Fun, Args: []ast.Expr{x.Args[0], c}}
				}
			}
		}
	}
	return nil
}

// reliedInvariantTypes: the API-level types whose representation invariant a contract's precondition relies on.
func reliedInvariantTypes(fc *FuncContract) map[string]bool {
	out := map[string]bool{}
	for _, rq := range fc.Requires {
		ast.Inspect(rq.Expr, func(n ast.Node) bool {
			if c, ok := n.(*ast.CallExpr); ok {
				if id, ok := c.Fun.(*ast.Ident); ok {
					switch id.Name {
					case "inv", "wf3":
						out["Element"] = true
					case "wfs":
						out["Scalar"] = true
					}
				}
			}
			return true
		})
	}
	return out
}
