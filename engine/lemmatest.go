package main

import (
	"fmt"
	"go/ast"
	"go/parser"
	"math/big"
	"math/rand"
	"sort"
	"strings"
)

// cmdLemmas evaluates every SMT-side lemma on random and boundary parameter values with the concrete evaluator.
// A lemma that evaluates to false on some tuple is unsound as stated (independently of its Lean proof, which is
// about a hand-translated statement). A lemma that cannot be evaluated to a constant is reported as "not testable".
func cmdLemmas(args []string) int {
	v, err := load()
	if err != nil {
		fmt.Println("ENGINE-ERROR:", err)
		return 2
	}
	n := 300
	rng := rand.New(rand.NewSource(1))
	fr := v.prog.Lookup("secp256k1.Base")
	ex := v.newExec(fr, v.specs.Funcs["secp256k1.Base"])
	ex.resetPath()
	ex.frames = []*Frame{{pkg: fr.Pkg, fn: fr}}
	concreteOn = true
	defer func() { concreteOn = false }()
	gx, _ := new(big.Int).SetString("79be667ef9dcbbac55a06295ce870b07029bfcdb2dce28d959f2815b16f81798", 16)
	gy, _ := new(big.Int).SetString("483ada7726a3c4655da4fbfc0e1108a8fd17b448a68554199c47d08ffb10d4b8", 16)
	G := gPt(gx, gy)
	special := []*big.Int{bi(0), bi(1), bi(2), bi(3), bi(63), bi(64), bi(255), bi(256), new(big.Int).Sub(primeP, bi(1)), primeP, new(big.Int).Sub(primeN, bi(1)), primeN,
		pow2(64), pow2(192), pow2(255), pow2(256), new(big.Int).Sub(pow2(256), bi(1)), bi(-1), new(big.Int).Neg(primeP)}
	randVal := func(sort string) *Term {
		switch sort {
		case "Int":
			switch rng.Intn(3) {
			case 0:
				return IntC(special[rng.Intn(len(special))])
			case 1:
				return IntI(int64(rng.Intn(300) - 20))
			}
			return IntC(new(big.Int).Rand(rng, pow2(257)))
		case "F", "Fn":
			s := SF
			if sort == "Fn" {
				s = SN
			}
			if rng.Intn(3) == 0 {
				return FConst(special[rng.Intn(4)], s)
			}
			return FConst(new(big.Int).Rand(rng, primeP), s)
		case "G":
			k := rng.Intn(12)
			r := gInf()
			for i := 0; i < k; i++ {
				r = gAddC(r, G)
			}
			return r
		}
		return nil
	}
	var names []string
	for n := range v.specs.Lemmas {
		names = append(names, n)
	}
	sort.Strings(names)
	bad := 0
	sorts := []string{"Int", "F", "Fn", "G"}
	for _, name := range names {
		lm := v.specs.Lemmas[name]
		// infer parameter sorts: the first assignment under which the body evaluates
		var assign []string
		var try func(i int, cur []string) bool
		eval := func(cur []string) (res *Term, ok bool) {
			defer func() {
				if r := recover(); r != nil {
					ok = false
				}
			}()
			c := &SpecCtx{ex: ex, vars: map[string]Value{}, pkg: fr.Pkg}
			for i, p := range lm.Params {
				c.vars[p] = randVal(cur[i])
			}
			return c.term(lm.Body), true
		}
		try = func(i int, cur []string) bool {
			if i == len(lm.Params) {
				okc := 0
				for k := 0; k < 12; k++ {
					if _, ok := eval(cur); ok {
						okc++
					}
				}
				if okc < 3 {
					return false
				}
				assign = append([]string{}, cur...)
				return true
			}
			for _, s := range sorts {
				if try(i+1, append(cur, s)) {
					return true
				}
			}
			return false
		}
		if !try(0, nil) {
			fmt.Printf("  ??   %-22s cannot be evaluated under any sort assignment\n", name)
			continue
		}
		trues, falses, resid := 0, 0, 0
		var witness string
		for k := 0; k < n; k++ {
			c := &SpecCtx{ex: ex, vars: map[string]Value{}, pkg: fr.Pkg}
			var vals []string
			for i, p := range lm.Params {
				t := randVal(assign[i])
				c.vars[p] = t
				vals = append(vals, p+"="+t.Short())
			}
			t, ok := func() (t *Term, ok bool) {
				defer func() {
					if r := recover(); r != nil {
						ok = false
					}
				}()
				return c.term(lm.Body), true
			}()
			switch {
			case !ok:
				resid++
			case t.IsTrue():
				trues++
			case t.IsFalse():
				falses++
				if witness == "" {
					witness = strings.Join(vals, ", ")
				}
			default:
				resid++
			}
		}
		mark := "ok  "
		if falses > 0 {
			mark = "FALSE"
			bad++
		} else if trues == 0 {
			mark = "n/t "
		}
		fmt.Printf("  %s %-22s (%s) true=%d false=%d not-evaluable=%d [%s] %s\n", mark, name, strings.Join(assign, ","), trues, falses, resid, lm.Status, witness)
	}
	if bad > 0 {
		return 1
	}
	return 0
}

var _ = ast.Inspect
var _ = parser.ParseExpr

// testIsoHom: bounded support for the one assumed lemma (iso_hom_chord): evaluated on n pairs of points of E'
// obtained as SSWU images of random field elements (so the hypotheses hold), with the concrete evaluator.
// Labelled bounded; never counted as proved.
func testIsoHom(v *Verifier, n int, seed int64) (evaluated, nontrivial, falses int, witness string) {
	lm := v.specs.Lemmas["iso_hom_chord"]
	if lm == nil {
		return
	}
	rng := rand.New(rand.NewSource(seed))
	fr := v.prog.Lookup("secp256k1.Base")
	ex := v.newExec(fr, v.specs.Funcs["secp256k1.Base"])
	ex.resetPath()
	ex.frames = []*Frame{{pkg: fr.Pkg, fn: fr}}
	concreteOn = true
	defer func() { concreteOn = false }()
	sx, _ := parser.ParseExpr("sswu_x(u)")
	sy, _ := parser.ParseExpr("sswu_y(u)")
	on, _ := parser.ParseExpr("onE3(x2, y2) && onE3(x1, y1) && x1 != x2")
	pt := func() (*Term, *Term) {
		c := &SpecCtx{ex: ex, vars: map[string]Value{"u": FConst(new(big.Int).Rand(rng, primeP), SF)}, pkg: fr.Pkg}
		return c.term(sx), c.term(sy)
	}
	for i := 0; i < n; i++ {
		x2, y2 := pt()
		x1, y1 := pt()
		if i%7 == 0 { // same x, opposite y and doubling are excluded by the hypothesis; make sure they are vacuous
			x1, y1 = x2, FOp("fneg", SF, y2)
		}
		c := &SpecCtx{ex: ex, vars: map[string]Value{"x2": x2, "y2": y2, "x1": x1, "y1": y1}, pkg: fr.Pkg}
		t := c.term(lm.Body)
		evaluated++
		if c.term(on).IsTrue() {
			nontrivial++
		}
		if t.IsFalse() {
			falses++
			if witness == "" {
				witness = fmt.Sprintf("x2=%s y2=%s x1=%s y1=%s", x2.Short(), y2.Short(), x1.Short(), y1.Short())
			}
		} else if !t.IsTrue() {
			evaluated--
		}
	}
	return
}
