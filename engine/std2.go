package main

import (
	"fmt"
	"go/ast"
	"go/token"
	"go/types"
)

type hexModel struct {
	ok      *Term  // Bool: the string is valid hex of even length
	bytes   SliceV // decoded bytes when ok
	partial SliceV // bytes returned together with an error
}

var hexLens = []int{0, 1, 31, 32, 33, 64, 65, -1}

func (ex *Exec) lenClassSlice(name string, lens []int) SliceV {
	u8 := types.Typ[types.Uint8]
	for _, n := range lens {
		if n == -1 {
			ln := Fresh("len("+name+")", SInt)
			ex.st.ranges[ln] = pow2(62)
			var others []*Term
			for _, k := range lens {
				if k >= 0 {
					others = append(others, Not(Eq(ln, IntI(int64(k)))))
				}
			}
			ex.st.addFact(And(others...), "other length class")
			o := ex.st.newObj(name, types.NewArray(u8, 0))
			return SliceV{Obj: o, Elem: u8, SymLen: ln}
		}
		sel := Fresh(fmt.Sprintf("len(%s)==%d", name, n), SBool)
		if ex.decide(sel, "length class of "+name) {
			o := ex.st.newObj(name, types.NewArray(u8, int64(n)))
			o.Cells = make([]Value, n)
			for i := range o.Cells {
				o.Cells[i] = ex.namedWord(fmt.Sprintf("%s[%d]", name, i), u8t)
			}
			return SliceV{Obj: o, Len: n, Cap: n, Elem: u8}
		}
	}
	panic(pathEnd{"no length class"})
}

func (ex *Exec) hexOf(key string) *hexModel {
	if ex.hex == nil {
		ex.hex = map[string]*hexModel{}
	}
	if m, ok := ex.hex[key]; ok {
		return m
	}
	m := &hexModel{ok: Var("hexvalid("+key+")", SBool)}
	ex.hex[key] = m
	return m
}

func (ex *Exec) callStd2(full string, fobj *types.Func, args []Value, e *ast.CallExpr) Value {
	switch full {
	case "encoding/hex.EncodeToString":
		s := args[0].(SliceV)
		return OpaqueV{Kind: "hexstr", Data: s}
	case "encoding/hex.DecodeString":
		key := "?"
		if o, ok := args[0].(OpaqueV); ok {
			key = fmt.Sprint(o.Data)
			// DecodeString(EncodeToString(b)) is a fresh copy of b and no error
			if sl, isSl := o.Data.(SliceV); isSl && o.Kind == "hexstr" && sl.Abs == nil && sl.SymLen == nil {
				cp := ex.newBytes("hexdec@"+ex.where(e), sl.Len, sl.Len)
				for i := 0; i < sl.Len; i++ {
					cp.Cells[i] = sl.Obj.Cells[sl.Off+i]
				}
				return TupleV{SliceV{Obj: cp, Len: sl.Len, Cap: sl.Len, Elem: sl.Elem}, IntI(0)}
			}
		}
		m := ex.hexOf(key)
		if ex.decide(m.ok, ex.where(e)) {
			if m.bytes.Obj == nil {
				m.bytes = ex.lenClassSlice("hexdec("+key+")", hexLens)
			}
			return TupleV{m.bytes, IntI(0)}
		}
		if m.partial.Obj == nil {
			m.partial = ex.lenClassSlice("hexpartial("+key+")", hexLens)
		}
		errv := Fresh("hexerr", SInt)
		ex.st.ranges[errv] = bi(1 << 20)
		ex.st.addFact(Lt(IntI(1000), errv), "hex error is non-nil and not a package error")
		return TupleV{m.partial, errv}
	case "crypto/subtle.ConstantTimeEq", "crypto/subtle.ConstantTimeByteEq":
		x, y := args[0].(*Term), args[1].(*Term)
		it := machType(types.Typ[types.Int])
		return Ite(Eq(x, y), ex.constOf(bi(1), it), ex.constOf(bi(0), it))
	case "crypto/subtle.ConstantTimeLessOrEq":
		x, y := args[0].(*Term), args[1].(*Term)
		it := machType(types.Typ[types.Int])
		ex.oblige("call", "ConstantTimeLessOrEq#pre:range@"+ex.where(e), And(Le(IntI(0), x), Lt(x, IntC(pow2(31))), Le(IntI(0), y), Lt(y, IntC(pow2(31)))), "")
		return Ite(Le(x, y), ex.constOf(bi(1), it), ex.constOf(bi(0), it))
	case "crypto/subtle.ConstantTimeCompare", "bytes.Equal":
		a, b := args[0].(SliceV), args[1].(SliceV)
		var eq *Term
		switch {
		case a.Abs != nil || b.Abs != nil:
			eq = Eq(ex.strOf(a), ex.strOf(b))
		case a.SymLen != nil || b.SymLen != nil:
			ex.unsupported("comparison of slices of unknown length at %s", ex.where(e))
		case a.Len != b.Len:
			eq = BoolC(false)
		default:
			var parts []*Term
			for i := 0; i < a.Len; i++ {
				parts = append(parts, Eq(ex.resolve(a.Obj.Cells[a.Off+i]).(*Term), ex.resolve(b.Obj.Cells[b.Off+i]).(*Term)))
			}
			eq = And(parts...)
		}
		if full == "bytes.Equal" {
			return eq
		}
		it := machType(types.Typ[types.Int])
		return Ite(eq, ex.constOf(bi(1), it), ex.constOf(bi(0), it))
	case "crypto/subtle.XORBytes":
		d, x, y := args[0].(SliceV), args[1].(SliceV), args[2].(SliceV)
		if d.Abs != nil || x.Abs != nil || y.Abs != nil || d.SymLen != nil || x.SymLen != nil || y.SymLen != nil {
			ex.unsupported("subtle.XORBytes on slices of unknown length at %s", ex.where(e))
		}
		n := x.Len
		if y.Len < n {
			n = y.Len
		}
		if d.Len < n {
			ex.oblige("safety", "XORBytes#len@"+ex.where(e), BoolC(false), "dst too short")
			panic(pathEnd{"XORBytes dst too short"})
		}
		tmp := make([]Value, n)
		for i := 0; i < n; i++ {
			tmp[i] = ex.binop(token.XOR, ex.resolve(x.Obj.Cells[x.Off+i]).(*Term), ex.resolve(y.Obj.Cells[y.Off+i]).(*Term), u8t, ex.where(e))
		}
		for i := 0; i < n; i++ {
			d.Obj.Cells[d.Off+i] = tmp[i]
		}
		if n > 0 {
			ex.noteWrite(d.Obj, d.Off, n)
		}
		return ex.constOf(bi(int64(n)), machType(types.Typ[types.Int]))
	case "slices.Clone", "bytes.Clone":
		sl := args[0].(SliceV)
		if sl.Abs != nil || sl.SymLen != nil || sl.Obj == nil {
			ex.unsupported("%s of a slice of unknown length at %s", full, ex.where(e))
		}
		o := ex.newBytes("clone@"+ex.where(e), sl.Len, sl.Len)
		for i := 0; i < sl.Len; i++ {
			o.Cells[i] = sl.Obj.Cells[sl.Off+i]
		}
		return SliceV{Obj: o, Len: sl.Len, Cap: sl.Len, Elem: sl.Elem}
	case "slices.Equal":
		return ex.callStd2("bytes.Equal", fobj, args, e)
	case "slices.Grow":
		// slices.Grow(s, n): the same slice when cap(s)-len(s) >= n, otherwise a copy with larger capacity
		sl := args[0].(SliceV)
		n := args[1].(*Term)
		if sl.Obj != nil && sl.Obj.SpareCap != nil {
			if ex.decide(Le(n, sl.Obj.SpareCap), ex.where(e)) {
				return sl
			}
		}
		if sl.Abs != nil {
			o := ex.st.newObj("grow@"+ex.where(e), sl.Obj.Typ)
			return SliceV{Obj: o, Elem: sl.Elem, Abs: &AbsBytes{Str: sl.Abs.Str, Len: sl.Abs.Len, Obj: o}}
		}
		if !n.IsConst() {
			ex.unsupported("slices.Grow with symbolic size")
		}
		k := int(n.val.Int64())
		if sl.Cap-sl.Len >= k && (sl.Obj == nil || sl.Obj.SpareCap == nil) {
			return sl
		}
		o := ex.newBytes("grow@"+ex.where(e), sl.Len, sl.Len+k)
		for i := 0; i < sl.Len; i++ {
			o.Cells[i] = sl.Obj.Cells[sl.Off+i]
		}
		return SliceV{Obj: o, Len: sl.Len, Cap: sl.Len + k, Elem: sl.Elem}
	case "fmt.Errorf":
		errv := Fresh("wrapped", SInt)
		ex.st.ranges[errv] = bi(1 << 20)
		ex.st.addFact(Lt(IntI(2000), errv), "fmt.Errorf returns a fresh non-nil error")
		return errv
	case "errors.Is":
		a, b := args[0].(*Term), args[1].(*Term)
		if a == b {
			return BoolC(true)
		}
		r := Fresh("errors.Is", SBool)
		ex.st.addFact(Implies(Eq(a, b), r), "errors.Is")
		ex.st.addFact(Implies(Eq(a, IntI(0)), Not(r)), "errors.Is")
		return r
	}
	return ex.callStd3(full, fobj, args, e)
}
