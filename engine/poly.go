package main

import (
	"math/big"
	"sort"
	"strconv"
	"strings"
)

// Polynomials over Z with opaque atoms (any non-arithmetic term is an indeterminate).

type mono struct {
	vars []*Term // sorted by id, with repetition
	coef *big.Int
}

type Poly map[string]*mono

func monoKey(vs []*Term) string {
	var sb strings.Builder
	for _, v := range vs {
		sb.WriteString(strconv.Itoa(v.id))
		sb.WriteByte(',')
	}
	return sb.String()
}

func (p Poly) add(vs []*Term, c *big.Int) {
	if c.Sign() == 0 {
		return
	}
	k := monoKey(vs)
	if m, ok := p[k]; ok {
		m.coef = new(big.Int).Add(m.coef, c)
		if m.coef.Sign() == 0 {
			delete(p, k)
		}
		return
	}
	p[k] = &mono{append([]*Term{}, vs...), new(big.Int).Set(c)}
}

func polyMul(a, b Poly) Poly {
	r := Poly{}
	for _, x := range a {
		for _, y := range b {
			vs := append(append([]*Term{}, x.vars...), y.vars...)
			sort.Slice(vs, func(i, j int) bool { return vs[i].id < vs[j].id })
			r.add(vs, new(big.Int).Mul(x.coef, y.coef))
		}
	}
	return r
}

func polyOf(t *Term) Poly {
	switch t.op {
	case "const":
		p := Poly{}
		p.add(nil, t.val)
		return p
	case "+":
		p := Poly{}
		for _, a := range t.args {
			for _, m := range polyOf(a) {
				p.add(m.vars, m.coef)
			}
		}
		return p
	case "*":
		p := polyOf(t.args[0])
		for _, a := range t.args[1:] {
			p = polyMul(p, polyOf(a))
		}
		return p
	}
	p := Poly{}
	p.add([]*Term{t}, bi(1))
	return p
}

// termOfPoly rebuilds a term; degree-2 monomials whose factor pair has an atom are replaced by it.
func termOfPoly(p Poly, atoms map[[2]*Term]*Term) *Term {
	var keys []string
	for k := range p {
		keys = append(keys, k)
	}
	sort.Strings(keys)
	var parts []*Term
	for _, k := range keys {
		m := p[k]
		fs := []*Term{IntC(m.coef)}
		vs := m.vars
		if len(vs) == 2 && atoms != nil {
			a, b := vs[0], vs[1]
			if a.id > b.id {
				a, b = b, a
			}
			if at, ok := atoms[[2]*Term{a, b}]; ok {
				vs = []*Term{at}
			}
		}
		fs = append(fs, vs...)
		parts = append(parts, Mul(fs...))
	}
	if len(parts) == 0 {
		return IntI(0)
	}
	return Add(parts...)
}

// atomize expands t and substitutes product atoms.
func atomize(t *Term, atoms map[[2]*Term]*Term) *Term {
	return termOfPoly(polyOf(t), atoms)
}

// atomizeBool atomises both sides of a comparison.
func atomizeBool(t *Term, atoms map[[2]*Term]*Term) *Term {
	switch t.op {
	case "<=":
		return Le(atomize(t.args[0], atoms), atomize(t.args[1], atoms))
	case "<":
		return Lt(atomize(t.args[0], atoms), atomize(t.args[1], atoms))
	case "=":
		if t.args[0].sort.K == KInt {
			return Eq(atomize(t.args[0], atoms), atomize(t.args[1], atoms))
		}
	case "and":
		var ps []*Term
		for _, a := range t.args {
			ps = append(ps, atomizeBool(a, atoms))
		}
		return And(ps...)
	}
	return t
}
