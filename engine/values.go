package main

import (
	"fmt"
	"go/ast"
	"go/types"
	"math/big"
)

// ---------- values ----------

type Value interface{}

type PtrV struct {
	Obj *Obj // nil => nil pointer
	Off int
	Typ types.Type // pointee type
}

type SliceV struct {
	Obj      *Obj // nil => nil slice
	Off      int
	Len      int
	Cap      int
	Elem     types.Type
	Abs      *AbsBytes // abstract byte string (symbolic length); Obj may be nil then
	SymLen   *Term     // "any other length" class: symbolic length, contents never accessible
	prefixOf *AbsBytes // set for s[:0] of an abstract slice: the original, whose bytes are now capacity
}

type AggV struct {
	Typ   types.Type
	Cells []Value
	Sym   *SymArr
}

type StrV struct{ S string }

type TupleV []Value

// ClosureV is a function literal together with the frame it was created in (non-escaping use only: it may be
// stored in a local variable and called; the captured variables are the live objects of that frame).
type ClosureV struct {
	Lit *ast.FuncLit
	Env *Frame
}

type OpaqueV struct {
	Kind string
	Data interface{}
}

// AbsBytes: an abstractly modelled byte slice (symbolic length/content).
type AbsBytes struct {
	Str *Term // sort Str
	Len *Term // Int
	Obj *Obj  // identity of the backing store (for frame reasoning); may be nil
}

type Obj struct {
	ID     int
	Name   string
	Typ    types.Type
	Cells  []Value
	Init   []Value
	Global bool
	Param  bool
	Pre    bool // existed before entry
	// SymArr: abstract contents, read via function; nil otherwise
	Sym *SymArr
	// spare capacity (for param slices): cells beyond len created lazily
	SpareCap *Term
}

type SymArr struct {
	Name  string
	Len   int
	Elem  Sort
	Facts []func(idx *Term, val *Term) *Term
}

// ---------- layout ----------

func isZeroSize(t types.Type) bool { return leafCount(t) == 0 }

func leafCount(t types.Type) int {
	switch u := t.Underlying().(type) {
	case *types.Array:
		return int(u.Len()) * leafCount(u.Elem())
	case *types.Struct:
		n := 0
		for i := 0; i < u.NumFields(); i++ {
			n += leafCount(u.Field(i).Type())
		}
		return n
	default:
		return 1
	}
}

func fieldOffset(st *types.Struct, idx int) int {
	off := 0
	for i := 0; i < idx; i++ {
		off += leafCount(st.Field(i).Type())
	}
	return off
}

// leafTypes returns the leaf types of t in layout order, with path names.
func leafTypes(t types.Type, prefix string, out *[]leafInfo) {
	switch u := t.Underlying().(type) {
	case *types.Array:
		for i := 0; i < int(u.Len()); i++ {
			leafTypes(u.Elem(), fmt.Sprintf("%s[%d]", prefix, i), out)
		}
	case *types.Struct:
		for i := 0; i < u.NumFields(); i++ {
			leafTypes(u.Field(i).Type(), prefix+"."+u.Field(i).Name(), out)
		}
	default:
		*out = append(*out, leafInfo{prefix, t})
	}
}

type leafInfo struct {
	Path string
	Typ  types.Type
}

// ---------- machine types ----------

type mtype struct {
	W      int
	Signed bool
	Bool   bool
	Ok     bool
	Kind   string // "int","bool","error","ptr","slice","string","float","iface","other"
}

func machType(t types.Type) mtype {
	switch u := t.Underlying().(type) {
	case *types.Basic:
		switch u.Kind() {
		case types.Bool, types.UntypedBool:
			return mtype{Bool: true, Ok: true, Kind: "bool"}
		case types.Uint8:
			return mtype{W: 8, Ok: true, Kind: "int"}
		case types.Uint16:
			return mtype{W: 16, Ok: true, Kind: "int"}
		case types.Uint32:
			return mtype{W: 32, Ok: true, Kind: "int"}
		case types.Uint64, types.Uint, types.Uintptr:
			return mtype{W: 64, Ok: true, Kind: "int"}
		case types.Int64, types.Int:
			return mtype{W: 64, Signed: true, Ok: true, Kind: "int"}
		case types.Int32:
			return mtype{W: 32, Signed: true, Ok: true, Kind: "int"}
		case types.Int8:
			return mtype{W: 8, Signed: true, Ok: true, Kind: "int"}
		case types.Int16:
			return mtype{W: 16, Signed: true, Ok: true, Kind: "int"}
		case types.UntypedInt, types.UntypedRune:
			return mtype{W: 64, Signed: true, Ok: true, Kind: "int"}
		case types.String, types.UntypedString:
			return mtype{Kind: "string"}
		case types.Float64, types.Float32, types.UntypedFloat:
			return mtype{Kind: "float"}
		}
	case *types.Pointer:
		return mtype{Kind: "ptr"}
	case *types.Slice:
		return mtype{Kind: "slice"}
	case *types.Interface:
		if types.Identical(t, types.Universe.Lookup("error").Type()) {
			return mtype{Kind: "error"}
		}
		return mtype{Kind: "iface"}
	}
	return mtype{Kind: "other"}
}

// ---------- state ----------

type Fact struct {
	T      *Term
	Origin string
}

type SpecLemma struct { // speculative lemma candidate (staged mode)
	Goal   *Term
	Pos    int // number of facts preceding it
	Origin string
}

type State struct {
	objs    []*Obj
	nextObj int
	facts   []Fact
	ranges  map[*Term]*big.Int // var -> exclusive upper bound (lower bound 0)
	spec    []SpecLemma
	quot    []*Term // Montgomery quotient words (staged)
	bind    map[*Term]*Term
}

func (st *State) addFact(t *Term, origin string) {
	if t.IsTrue() {
		return
	}
	st.facts = append(st.facts, Fact{t, origin})
}

func (st *State) newObj(name string, typ types.Type) *Obj {
	st.nextObj++
	o := &Obj{ID: st.nextObj, Name: name, Typ: typ}
	st.objs = append(st.objs, o)
	return o
}
