package main

import (
	"math/big"
	"strings"
)

// Field-level terms. Sort SF (mod P) / SN (mod N).

var (
	primeP = bigStr("0xfffffffffffffffffffffffffffffffffffffffffffffffffffffffefffffc2f")
	primeN = bigStr("0xfffffffffffffffffffffffffffffffebaaedce6af48a03bbfd25e8cd0364141")
	bigR   = pow2(256)
)

func modulusOf(s Sort) *big.Int {
	if s == SF {
		return primeP
	}
	if s == SN {
		return primeN
	}
	panic("not a field sort")
}

func FConst(v *big.Int, s Sort) *Term {
	return TS.mk("const", s, "", new(big.Int).Mod(v, modulusOf(s)), 0, 0)
}

var powMode bool

func asPow(t *Term) (*Term, *big.Int) {
	if t.op == "app" && strings.HasPrefix(t.name, "fpow_") && t.args[1].IsConst() {
		return t.args[0], t.args[1].val
	}
	return t, bi(1)
}

func FPow(b *Term, e *big.Int) *Term {
	if e.Cmp(bi(1)) == 0 {
		return b
	}
	return App("fpow_"+b.sort.Name, b.sort, b, IntC(e))
}

// FOp builds fadd/fsub/fmul/fneg with constant folding.
func FOp(op string, s Sort, args ...*Term) *Term {
	for _, a := range args {
		if a.sort != s {
			panic("FOp sort mismatch: " + op + " " + a.Short())
		}
	}
	m := modulusOf(s)
	allc := true
	for _, a := range args {
		if !a.IsConst() {
			allc = false
		}
	}
	if allc {
		r := new(big.Int)
		switch op {
		case "fadd":
			r.Add(args[0].val, args[1].val)
		case "fsub":
			r.Sub(args[0].val, args[1].val)
		case "fmul":
			r.Mul(args[0].val, args[1].val)
		case "fneg":
			r.Neg(args[0].val)
		}
		return FConst(r.Mod(r, m), s)
	}
	// units and zero (sound in every commutative ring; keeps lemma instances with a zero operand usable for code
	// that simply omits the zero term)
	isC := func(t *Term, v int64) bool { return t.IsConst() && t.val.Cmp(big.NewInt(v)) == 0 }
	switch op {
	case "fadd":
		if isC(args[0], 0) {
			return args[1]
		}
		if isC(args[1], 0) {
			return args[0]
		}
	case "fsub":
		if isC(args[1], 0) {
			return args[0]
		}
	case "fmul":
		if isC(args[0], 0) || isC(args[1], 0) {
			return FConst(big.NewInt(0), s)
		}
		if !powMode {
			if isC(args[0], 1) {
				return args[1]
			}
			if isC(args[1], 1) {
				return args[0]
			}
		}
	}
	if op == "fmul" && powMode {
		b1, e1 := asPow(args[0])
		b2, e2 := asPow(args[1])
		if b1 == b2 {
			return FPow(b1, new(big.Int).Add(e1, e2))
		}
	}
	// No commutative reordering: argument positions must be stable under replacing a term by one that is equal
	// to it by a hypothesis (otherwise f(a,b) and f(a',b') with a=a', b=b' can print with swapped arguments and
	// congruence no longer applies). Specs are written in the operand order of the code.
	return TS.mk(op, s, "", nil, 0, 0, args...)
}

func modInverse(a, m *big.Int) *big.Int {
	r := new(big.Int).ModInverse(a, m)
	if r == nil {
		return new(big.Int)
	}
	return r
}

// FromM: Montgomery decoding Int -> F : x * R^-1 mod M
func (ex *Exec) FromM(s Sort, x *Term) *Term {
	m := modulusOf(s)
	if x.IsConst() {
		v := new(big.Int).Mul(x.val, modInverse(bigR, m))
		return FConst(v, s)
	}
	t := App("fromM_"+s.Name, s, x)
	if ex != nil {
		if b, ok := ex.st.bind[t]; ok {
			return b
		}
	}
	return t
}

// FOfInt: Int -> F (reduction mod M)
func FOfInt(s Sort, x *Term) *Term {
	if x.IsConst() {
		return FConst(x.val, s)
	}
	if x.op == "app" && x.name == "fint_"+s.Name {
		return x.args[0]
	}
	return App("fofint_"+s.Name, s, x)
}

// FInt: F -> Int canonical representative in [0,M)
func FInt(x *Term) *Term {
	if x.IsConst() {
		return IntC(x.val)
	}
	return App("fint_"+x.sort.Name, SInt, x)
}
