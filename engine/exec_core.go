package main

import (
	"fmt"
	"go/ast"
	"go/types"
	"regexp"
	"sort"
	"strings"
)

type Oblig struct {
	Name    string // stable name: func#kind:label
	Sub     string // sub-case (alias pattern / path / call ordinal)
	Func    string
	Kind    string
	Hyps    []*Term
	Goal    *Term
	Axioms  []string
	Ring    bool
	Props   []string
	Info    string
	Inputs  map[string]*Term // named input terms (for model extraction)
	Pattern string
	Soft    bool // speculative: failure is not an error
	Depth   int  // hypothesis slicing depth (0 = full cone of influence)
	NoSlice bool
	Group   *SoftGroup
	Lemmas  []*SoftGroup // speculative lemmas usable as hypotheses once proven
	// results
	Res     SolverResult
	All     []SolverResult
	Trivial bool
	SMTSize int
	TimeMul int  // timeout multiplier
	Retried bool // answered only by the second-chance pass of runBatch
	Cover   bool // vacuity guard: the hypotheses must be satisfiable (expected answer: sat)
}

type Frame struct {
	pkg     *Pkg
	fn      *FuncRef
	vars    map[types.Object]*Obj
	results []Value
	defers  []deferredCall
	parent  *Frame // enclosing frame of a function literal's frame (captured variables are looked up there)
	byName  map[string]*Obj
	types   map[string]types.Type
}

type Exec struct {
	prog   *Program
	specs  *Specs
	fn     *FuncRef
	fc     *FuncContract
	mode   Mode
	st     *State
	script []bool
	pos    int
	obligs []*Oblig
	frames []*Frame

	pattern   string
	callCount map[string]int
	loopCount int
	depth     int

	entry        *Snapshot
	specVars     map[string]Value // param name -> entry value
	inputs       map[string]*Term
	globals      map[types.Object]*Obj
	wordBytesOf  map[*Term][]*Term       // base-256 digits introduced for a word (byteOfWord)
	written      map[*Obj]map[int]string // cells of pre-existing objects stored to on this path (-> where first)
	lastWhere    string
	invProj      bool               // also generate the invariant projections of the postconditions
	evalOverride map[ast.Expr]Value // argument values fixed at a defer statement (deferred builtins)
	brLabel      string             // label of the break/continue being propagated ("" = innermost)
	pendingLabel string             // label of the statement about to be executed
	globalsRead  map[string]bool    // package-level variables materialised during this run (qualified names)
	errCodes     map[string]int64
	lazyForall   []lazyForall
	forceInline  bool
	results      []Value
	steps        int
	ghost        map[string]*Term // ghost state (e.g. trace, rnd cursor)

	curAssign       *ast.AssignStmt
	atoms           map[[2]*Term]*Term
	atomList        []prodAtomRec
	usedModels      map[string]bool
	usedLemmas      map[string]bool
	panicPaths      int
	havocVars       map[*Term]bool
	calledContracts map[string]bool
	symCount        int
	ghostEntry      map[string]*Term
	nPreFacts       int
	ordSeen         map[string]map[string]int
	hex             map[string]*hexModel
	specVarsExtra   []string
	hashCount       int
	bigVals         map[*Obj]*Term
	trace           *Term
	segs            []schedSeg
	schedMode       bool
	strVals         map[string]string
	coverCount      map[string]int
	preFalse        bool
}

type schedSeg struct {
	kind  string
	trace *Term
	hyps  []*Term
	path  string
}

type lazyForall struct {
	lo, hi *Term
	body   func(idx *Term) *Term
}

type Snapshot struct {
	cells map[*Obj][]Value
}

func (ex *Exec) snapshot() *Snapshot {
	s := &Snapshot{cells: map[*Obj][]Value{}}
	for _, o := range ex.st.objs {
		s.cells[o] = append([]Value{}, o.Cells...)
	}
	return s
}

type pathEnd struct{ why string }

func (ex *Exec) frame() *Frame { return ex.frames[len(ex.frames)-1] }

func (ex *Exec) where(n ast.Node) string {
	p := ex.prog.Fset.Position(n.Pos())
	return fmt.Sprintf("%s:%d", shortFile(p.Filename), p.Line)
}

func shortFile(f string) string {
	if i := strings.LastIndex(f, "/"); i >= 0 {
		return f[i+1:]
	}
	return f
}

// decide takes a branch on a symbolic condition following the decision script.
func (ex *Exec) decide(c *Term, where string) bool {
	if c.IsTrue() {
		return true
	}
	if c.IsFalse() {
		return false
	}
	var d bool
	if ex.pos < len(ex.script) {
		d = ex.script[ex.pos]
	} else {
		d = true
		ex.script = append(ex.script, true)
	}
	ex.pos++
	if ex.pos > 120 {
		ex.unsupported("more than 120 symbolic branches on one path (a loop with a data-dependent branch needs an invariant) at %s", where)
	}
	if d {
		ex.st.addFact(c, "branch@"+where)
	} else {
		ex.st.addFact(Not(c), "branch@"+where)
	}
	return d
}

func (ex *Exec) hyps() []*Term {
	out := make([]*Term, 0, len(ex.st.facts))
	for _, f := range ex.st.facts {
		out = append(out, f.T)
	}
	return out
}

func (ex *Exec) pathLabel() string {
	var sb strings.Builder
	for i := 0; i < ex.pos && i < len(ex.script); i++ {
		if ex.script[i] {
			sb.WriteByte('T')
		} else {
			sb.WriteByte('F')
		}
	}
	return sb.String()
}

var lineRef = regexp.MustCompile(`@[A-Za-z0-9_]+\.go:\d+`)

// stabilise replaces source positions in obligation labels by per-path ordinals, so that names
// survive edits that only move code.
func (ex *Exec) stabilise(kind, label string) string {
	loc := lineRef.FindString(label)
	if loc == "" {
		return label
	}
	base := strings.Replace(label, loc, "", 1)
	key := kind + ":" + base
	if ex.ordSeen == nil {
		ex.ordSeen = map[string]map[string]int{}
	}
	m := ex.ordSeen[key]
	if m == nil {
		m = map[string]int{}
		ex.ordSeen[key] = m
	}
	k, ok := m[loc]
	if !ok {
		k = len(m) + 1
		m[loc] = k
	}
	return strings.Replace(label, loc, fmt.Sprintf("@%d", k), 1)
}

// oblige records a proof obligation under the current path.
func (ex *Exec) oblige(kind, label string, goal *Term, info string) *Oblig {
	if loc := lineRef.FindString(label); loc != "" {
		info = strings.TrimSpace(info + " (" + loc[1:] + ")")
	}
	label = ex.stabilise(kind, label)
	name := ex.fn.QName() + "#" + kind
	if label != "" {
		name += ":" + label
	}
	o := &Oblig{Name: name, Func: ex.fn.QName(), Kind: kind, Hyps: ex.hyps(), Goal: goal, Info: info,
		Sub: ex.pattern + "/" + ex.pathLabel(), Inputs: ex.inputs, Pattern: ex.pattern}
	if goal.IsTrue() {
		o.Trivial = true
	}
	ex.obligs = append(ex.obligs, o)
	return o
}

// rangeHyps returns range facts for all variables occurring in the given terms.
func rangeHyps(st *State, ts []*Term) []*Term {
	vars := map[*Term]bool{}
	for _, t := range ts {
		termVars(t, vars)
	}
	var vs []*Term
	for v := range vars {
		vs = append(vs, v)
	}
	sort.Slice(vs, func(i, j int) bool { return vs[i].id < vs[j].id })
	var out []*Term
	for _, v := range vs {
		if ub, ok := st.ranges[v]; ok && v.sort.K == KInt {
			out = append(out, And(Le(IntI(0), v), Lt(v, IntC(ub))))
		}
	}
	return out
}

// sliceHyps keeps the hypotheses in the cone of influence of goal (by shared variables).
func sliceHyps(hyps []*Term, goal *Term, depth int) []*Term {
	gv := map[*Term]bool{}
	termVars(goal, gv)
	if len(gv) == 0 {
		return hyps
	}
	hv := make([]map[*Term]bool, len(hyps))
	for i, h := range hyps {
		hv[i] = map[*Term]bool{}
		termVars(h, hv[i])
	}
	used := make([]bool, len(hyps))
	for round := 0; depth <= 0 || round < depth; round++ {
		changed := false
		for i := range hyps {
			if used[i] {
				continue
			}
			hit := len(hv[i]) == 0
			for v := range hv[i] {
				if gv[v] {
					hit = true
					break
				}
			}
			if hit {
				used[i] = true
				changed = true
			}
		}
		for i := range hyps {
			if used[i] {
				for v := range hv[i] {
					gv[v] = true
				}
			}
		}
		if !changed {
			break
		}
	}
	var out []*Term
	for i, h := range hyps {
		if used[i] {
			out = append(out, h)
		}
	}
	return out
}
