package main

import (
	"go/ast"
	"go/types"
)

// ----- abstract byte slices (Str theory): filled in by str.go -----

func rndByte(j *Term, i int) *Term { return App("rndbyte", SInt, j, IntI(int64(i))) }

// rndBlock(j) = big-endian value of the j-th 32-byte block of the entropy stream.
func rndBlock(j *Term) *Term {
	var parts []*Term
	for i := 0; i < 32; i++ {
		parts = append(parts, Mul(IntC(pow2(8*(31-i))), rndByte(j, i)))
	}
	return Add(parts...)
}

func (ex *Exec) callStd3(full string, fobj *types.Func, args []Value, e *ast.CallExpr) Value {
	if v, ok := ex.callHash(full, args, e); ok {
		return v
	}
	if v, ok := ex.callBig(full, args, e); ok {
		return v
	}
	switch full {
	case "io.ReadFull":
		// trusted model of io.ReadFull(crypto/rand.Reader, buf): either an error (nothing is assumed about buf),
		// or buf is filled with the next len(buf)==32 bytes of the ghost entropy stream.
		rd, ok := args[0].(OpaqueV)
		buf := args[1].(SliceV)
		if !ok || rd.Kind != "rand.Reader" || buf.Len != 32 {
			ex.unsupported("io.ReadFull is only modelled for (crypto/rand.Reader, 32-byte buffer) at %s", ex.where(e))
		}
		fail := Fresh("readfail", SBool)
		intT := machType(types.Typ[types.Int])
		if ex.decide(fail, ex.where(e)) {
			errv := Fresh("readerr", SInt)
			ex.st.ranges[errv] = bi(1 << 20)
			ex.st.addFact(Lt(IntI(3000), errv), "read error is non-nil")
			ex.ghost["rndfail"] = BoolC(true)
			for i := 0; i < buf.Len; i++ {
				ex.havocLeaf(buf.Obj, buf.Off+i, buf.Elem, "partial")
			}
			return TupleV{ex.freshWord("n", intT), errv}
		}
		cur := ex.ghost["rnd"]
		for i := 0; i < 32; i++ {
			b := rndByte(cur, i)
			ex.st.addFact(And(Le(IntI(0), b), Lt(b, IntI(256))), "entropy byte range")
			ex.st.ranges[b] = bi(256)
			buf.Obj.Cells[buf.Off+i] = b
		}
		ex.noteWrite(buf.Obj, buf.Off, 32)
		ex.ghost["rnd"] = Add(cur, IntI(1))
		return TupleV{ex.constOf(bi(32), intT), IntI(0)}
	}
	ex.unsupported("no model for %s at %s", full, ex.where(e))
	return nil
}

// initGlobal evaluates the initialiser of a package-level variable (all callees inlined).
func (ex *Exec) initGlobal(v *types.Var) *Obj {
	p := ex.prog.Pkgs[v.Pkg().Path()]
	if p == nil {
		ex.unsupported("global %s of foreign package", v.Name())
	}
	for _, f := range p.Files {
		for _, d := range f.Decls {
			gd, ok := d.(*ast.GenDecl)
			if !ok {
				continue
			}
			for _, sp := range gd.Specs {
				vs, ok := sp.(*ast.ValueSpec)
				if !ok {
					continue
				}
				for i, n := range vs.Names {
					if p.Info.Defs[n] != types.Object(v) {
						continue
					}
					o := ex.st.newObj(v.Name(), v.Type())
					o.Cells = make([]Value, leafCount(v.Type()))
					var val Value
					if i < len(vs.Values) {
						saveF, saveI := ex.frames, ex.forceInline
						ex.frames = append(ex.frames, &Frame{pkg: p, vars: map[types.Object]*Obj{}})
						ex.forceInline = true
						val = ex.eval(vs.Values[i])
						ex.frames, ex.forceInline = saveF, saveI
					} else {
						val = ex.zeroValue(v.Type())
					}
					ex.storeInit(o, v.Type(), val)
					o.Init = append([]Value{}, o.Cells...)
					o.Global, o.Pre = true, true
					ex.globals[v] = o
					if ex.globalsRead == nil {
						ex.globalsRead = map[string]bool{}
					}
					ex.globalsRead[qualVar(v)] = true
					if ex.entry != nil {
						ex.entry.cells[o] = append([]Value{}, o.Cells...)
					}
					return o
				}
			}
		}
	}
	ex.unsupported("initialiser of global %s not found", v.Name())
	return nil
}
