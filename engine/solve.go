package main

import (
	"bytes"
	"context"
	"crypto/sha256"
	"encoding/hex"
	"fmt"
	"os"
	"os/exec"
	"path/filepath"
	"regexp"
	"strings"
	"sync"
	"time"
)

type SolverResult struct {
	Solver  string
	Result  string // unsat sat unknown timeout error
	Seconds float64
	Output  string
	Model   map[string]string
}

type solverSpec struct {
	name string
	args func(file string, timeoutS int, sc *Script) []string
	pre  func(sc *Script) string
}

var solvers = []solverSpec{
	{"z3-new", func(f string, t int, sc *Script) []string { return []string{"z3-new", fmt.Sprintf("-T:%d", t), f} }, func(sc *Script) string { return "" }},
	{"z3", func(f string, t int, sc *Script) []string { return []string{"z3", fmt.Sprintf("-T:%d", t), f} }, func(sc *Script) string { return "" }},
	{"cvc5", func(f string, t int, sc *Script) []string {
		return []string{"cvc5", fmt.Sprintf("--tlimit=%d", t*1000), "--produce-models", f}
	}, func(sc *Script) string {
		if sc.OnlyBV {
			return "(set-logic QF_BV)\n"
		}
		return "(set-logic ALL)\n"
	}},
}

var workDir = "/verif/build/smt"
var solverSem = make(chan struct{}, 16)

// RunScript races the solvers on one script; returns the first decisive (sat/unsat) result,
// or the collection's best non-decisive result. If all is true, waits for all solvers.
var gcOnce sync.Once

// gcScripts removes SMT scripts left behind by processes that no longer exist (killed runs).
func gcScripts() {
	ents, err := os.ReadDir(workDir)
	if err != nil {
		return
	}
	re := regexp.MustCompile(`-(\d+)\.[a-z0-9-]+\.smt2$`)
	alive := map[string]bool{}
	for _, e := range ents {
		m := re.FindStringSubmatch(e.Name())
		if m == nil {
			continue
		}
		ok, seen := alive[m[1]]
		if !seen {
			_, err := os.Stat("/proc/" + m[1])
			ok = err == nil
			alive[m[1]] = ok
		}
		if !ok {
			os.Remove(filepath.Join(workDir, e.Name()))
		}
	}
}

func RunScript(name string, sc *Script, timeoutS int, all bool) (best SolverResult, allRes []SolverResult) {
	os.MkdirAll(workDir, 0o755)
	if !keepSMT {
		gcOnce.Do(gcScripts)
	}
	h := sha256.Sum256([]byte(sc.Text))
	base := filepath.Join(workDir, fmt.Sprintf("%s-%s-%d", sanitize(name), hex.EncodeToString(h[:6]), os.Getpid()))
	ctx, cancel := context.WithCancel(context.Background())
	defer cancel()
	ch := make(chan SolverResult, len(solvers))
	var wg sync.WaitGroup
	for _, sp := range solvers {
		sp := sp
		wg.Add(1)
		go func() {
			defer wg.Done()
			solverSem <- struct{}{}
			defer func() { <-solverSem }()
			if ctx.Err() != nil {
				ch <- SolverResult{Solver: sp.name, Result: "cancelled"}
				return
			}
			file := base + "." + sp.name + ".smt2"
			os.WriteFile(file, []byte(sp.pre(sc)+sc.Text), 0o644)
			args := sp.args(file, timeoutS, sc)
			t0 := time.Now()
			cctx, ccancel := context.WithTimeout(ctx, time.Duration(timeoutS+2)*time.Second)
			defer ccancel()
			cmd := exec.CommandContext(cctx, args[0], args[1:]...)
			var out bytes.Buffer
			cmd.Stdout = &out
			cmd.Stderr = &out
			cmd.Run()
			r := SolverResult{Solver: sp.name, Seconds: time.Since(t0).Seconds(), Output: out.String()}
			first := strings.TrimSpace(strings.SplitN(out.String(), "\n", 2)[0])
			switch {
			case first == "unsat":
				r.Result = "unsat"
			case first == "sat":
				r.Result = "sat"
				r.Model = parseValues(out.String())
			case first == "unknown":
				r.Result = "unknown"
			case first == "timeout" || cctx.Err() != nil:
				if ctx.Err() != nil {
					r.Result = "cancelled"
				} else {
					r.Result = "timeout"
				}
			default:
				r.Result = "error"
			}
			if !keepSMT && (r.Result == "unsat" || r.Result == "cancelled") {
				os.Remove(file)
			}
			ch <- r
		}()
	}
	go func() { wg.Wait(); close(ch) }()
	best = SolverResult{Result: "none"}
	for r := range ch {
		allRes = append(allRes, r)
		dec := r.Result == "sat" || r.Result == "unsat"
		if dec && (best.Result != "sat" && best.Result != "unsat") {
			best = r
			if !all {
				cancel()
			}
		} else if !dec && best.Result == "none" || (best.Result == "cancelled" || best.Result == "error") && !dec && r.Result != "cancelled" {
			best = r
		}
	}
	return
}

var keepSMT = os.Getenv("VERIF_KEEP_SMT") != ""

func sanitize(s string) string {
	return regexp.MustCompile(`[^A-Za-z0-9_.#-]+`).ReplaceAllString(s, "_")
}

// parseValues parses ((x v) (y v) ...) output of get-value.
func parseValues(out string) map[string]string {
	m := map[string]string{}
	i := strings.Index(out, "(")
	if i < 0 {
		return m
	}
	s := out[i:]
	// tokenise s-expressions
	toks := tokenize(s)
	pos := 0
	var parse func() interface{}
	parse = func() interface{} {
		if pos >= len(toks) {
			return nil
		}
		t := toks[pos]
		pos++
		if t == "(" {
			var l []interface{}
			for pos < len(toks) && toks[pos] != ")" {
				l = append(l, parse())
			}
			pos++
			return l
		}
		return t
	}
	for pos < len(toks) {
		top := parse()
		l, ok := top.([]interface{})
		if !ok {
			continue
		}
		for _, e := range l {
			p, ok := e.([]interface{})
			if !ok || len(p) != 2 {
				continue
			}
			m[sexpStr(p[0])] = sexpVal(p[1])
		}
	}
	return m
}

func tokenize(s string) []string {
	var toks []string
	i := 0
	for i < len(s) {
		c := s[i]
		switch {
		case c == '(' || c == ')':
			toks = append(toks, string(c))
			i++
		case c == ' ' || c == '\n' || c == '\t' || c == '\r':
			i++
		case c == '|':
			j := strings.IndexByte(s[i+1:], '|')
			if j < 0 {
				j = len(s) - i - 2
			}
			toks = append(toks, s[i+1:i+1+j])
			i += j + 2
		default:
			j := i
			for j < len(s) && !strings.ContainsRune("() \n\t\r", rune(s[j])) {
				j++
			}
			toks = append(toks, s[i:j])
			i = j
		}
	}
	return toks
}

func sexpStr(e interface{}) string {
	switch v := e.(type) {
	case string:
		return v
	case []interface{}:
		var parts []string
		for _, x := range v {
			parts = append(parts, sexpStr(x))
		}
		return "(" + strings.Join(parts, " ") + ")"
	}
	return ""
}

// sexpVal renders a model value as a decimal integer string when possible.
func sexpVal(e interface{}) string {
	switch v := e.(type) {
	case string:
		if strings.HasPrefix(v, "#x") {
			return bigStr("0x" + v[2:]).String()
		}
		if strings.HasPrefix(v, "#b") {
			return bigStr("0b" + v[2:]).String()
		}
		return v
	case []interface{}:
		if len(v) == 2 && sexpStr(v[0]) == "-" {
			return "-" + sexpVal(v[1])
		}
		if len(v) == 3 && sexpStr(v[0]) == "_" {
			s := sexpStr(v[1])
			if strings.HasPrefix(s, "bv") {
				return s[2:]
			}
		}
		return sexpStr(e)
	}
	return ""
}
