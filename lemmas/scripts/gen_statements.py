#!/usr/bin/env python3
"""Mechanical translation of the `//@ lemma` lines into Lean statements, checked by Lean against the hand-written theorems.

Reads every `//@ const`, `//@ define`, `//@ declare`, `//@ lemma` line of the three contract files and of the lemma programs
/verif/clients/*.go (read-only), parses the bodies (Go expression syntax), infers the sort of every parameter and
sub-expression by the rules of ../SMT_LEMMAS.md, and writes

    Secp/GenSMT.lean    (imports SecpSMT, SecpSMT3)     Secp/GenSMT2.lean   (imports SecpSMT2: sswu_on_curve, iso_valid)

one line per lemma:   example : forall (params : inferred sorts), <generated statement> := by with_reducible exact SecpSMT.<name>
so Lean itself checks that the generated statement IS the statement of the hand-written theorem, up to unfolding of
reducible definitions only (the abbreviations P, N, F, Fn, G, `Ne`, `GT.gt`, and instances): no `simp`, no `ring`, no
unfolding of the vocabulary.  A second section checks the vocabulary the same way: `NAME = value` for every `//@ const`
with a Lean `def`, and `name params = <generated body>` for every `//@ define` with a Lean `def` (see VOCAB CHECK below).

usage: gen_statements.py [--quiet]             write the two files (only if changed); print the statements unless --quiet
       gen_statements.py --stamp M=true|false ...   print the JSON object for build/stamp.json (M = GenSMT, GenSMT2)
Plain python3, no third-party modules.  Exit status 1 if some lemma could not be translated.
"""
import glob
import json
import os
import re
import sys

HERE = os.path.dirname(os.path.abspath(__file__))
ROOT = os.path.dirname(HERE)
CONTRACTS = ["/repo/internal/field/contracts_verif.go", "/repo/internal/scalar/contracts_verif.go", "/repo/contracts_verif.go"]
CLIENT_GLOB = "/verif/clients/*.go"
HAND = ["SecpSMT", "SecpSMT2", "SecpSMT3"]          # where the hand-written theorems live
TARGET = {"SecpSMT": "GenSMT", "SecpSMT3": "GenSMT", "SecpSMT2": "GenSMT2"}
IMPORTS = {"GenSMT": ["SecpSMT", "SecpSMT3"], "GenSMT2": ["SecpSMT2"]}
TACTIC = "by with_reducible exact "


class Err(Exception):
    pass


# ---------------------------------------------------------------- 1. parser (Go expression sub-language)
TOKEN = re.compile(r"\s*(?:(0[xX][0-9a-fA-F]+|\d+)|([A-Za-z_]\w*)|(==|!=|<=|>=|&&|\|\||[-+*/%<>!(),]))")
PREC = {"||": 1, "&&": 2, "==": 3, "!=": 3, "<": 3, "<=": 3, ">": 3, ">=": 3, "+": 4, "-": 4, "*": 5, "/": 5, "%": 5}


class E:
    """AST node: k = num | var | call | un | bin;  op = literal text / name / operator;  sv = sort (set by infer)"""
    def __init__(self, k, op, args=()):
        self.k, self.op, self.args, self.sv, self.const = k, op, list(args), None, False


def parse(text):
    toks, pos = [], 0
    text = text.rstrip()
    while pos < len(text):
        m = TOKEN.match(text, pos)
        if not m:
            raise Err("cannot tokenise at %r" % text[pos:pos + 20])
        toks.append(("num", m.group(1)) if m.group(1) else ("id", m.group(2)) if m.group(2) else ("op", m.group(3)))
        pos = m.end()
    toks.append(("eof", ""))
    i = [0]

    def peek():
        return toks[i[0]]

    def take(kind=None, txt=None):
        t = toks[i[0]]
        if (kind and t[0] != kind) or (txt and t[1] != txt):
            raise Err("expected %s, got %r" % (txt or kind, t[1]))
        i[0] += 1
        return t

    def expr(minp):
        left = unary()
        while peek()[0] == "op" and PREC.get(peek()[1], 0) >= minp:
            op = take()[1]
            left = E("bin", op, [left, expr(PREC[op] + 1)])          # all Go binary operators are left-associative
        return left

    def unary():
        if peek() in (("op", "-"), ("op", "!")):
            return E("un", take()[1], [unary()])
        return primary()

    def primary():
        kind, txt = take()
        if kind == "num":
            return E("num", txt)
        if kind == "id":
            if peek() != ("op", "("):
                return E("var", txt)
            take()
            args = []
            while peek() != ("op", ")"):
                args.append(expr(1))
                if peek() == ("op", ","):
                    take()
                elif peek() != ("op", ")"):
                    raise Err("expected , or ) in call of %s" % txt)
            take()
            return E("call", txt, args)
        if (kind, txt) == ("op", "("):
            e = expr(1)
            take("op", ")")
            return e
        raise Err("unexpected %r" % txt)

    e = expr(1)
    take("eof")
    return e


def read_contracts():
    """-> consts {name: literal text}, defines {name: (params, body text, where)}, declares {name: (args, ret)}, lemmas [..]"""
    consts, defines, declares, lemmas = {}, {}, {}, []
    for f in CONTRACTS + sorted(glob.glob(CLIENT_GLOB)):
        where = os.path.relpath(f, "/repo") if f.startswith("/repo/") else os.path.relpath(f, "/verif")
        for n, line in enumerate(open(f, encoding="utf-8"), 1):
            m = re.match(r"\s*//@ (const|define|declare|lemma)\s+(.*)$", line)
            if not m:
                continue
            kind, rest = m.group(1), m.group(2).strip()
            if kind == "const":
                c = re.match(r"(\w+)\s*=\s*(0[xX][0-9a-fA-F]+|\d+)$", rest)
                if c:
                    consts[c.group(1)] = c.group(2)
            elif kind == "define":
                d = re.match(r"(\w+)\(([^)]*)\)\s*=\s*(.*)$", rest)
                if d:
                    defines[d.group(1)] = ([p.strip() for p in d.group(2).split(",") if p.strip()], d.group(3), "%s:%d" % (where, n))
            elif kind == "declare":
                d = re.match(r"(\w+)\(([^)]*)\)\s*(\w+)$", rest)
                if d:
                    declares[d.group(1)] = ([p.strip() for p in d.group(2).split(",") if p.strip()], d.group(3))
            else:
                d = re.match(r"(\w+)\(([^)]*)\)\s*(?:\{lean:\s*([^}]*)\})?\s*:\s*(.*)$", rest)     # = lemmaHead of engine/contract.go
                if not d:
                    raise Err("%s:%d: malformed lemma line" % (where, n))
                lemmas.append({"name": d.group(1), "params": [p.strip() for p in d.group(2).split(",") if p.strip()],
                               "body": d.group(4).strip(), "where": "%s:%d" % (where, n)})
    return consts, defines, declares, lemmas


# ---------------------------------------------------------------- 2. sorts: Int, F, Fn, G, Bool (SMT_LEMMAS.md)
ALL, NUM, FLD = frozenset(["Int", "F", "Fn", "G", "Bool"]), frozenset(["Int", "F", "Fn"]), frozenset(["F", "Fn"])
LEAN_SORT = {"Int": "ℤ", "F": "SecpSMT.F", "Fn": "SecpSMT.Fn", "G": "SecpSMT.G", "Bool": "Prop"}


class SV:
    """sort variable (union-find); `allowed` = the sorts it can still be; `lit` = stands for integer literals only"""
    def __init__(self, allowed, lit=False):
        self.up, self.allowed, self.lit = self, frozenset([allowed] if isinstance(allowed, str) else allowed), lit

    def find(self):
        while self.up is not self:
            self.up = self.up.up
            self = self.up
        return self


def unify(a, b, what):
    a, b = a.find(), b.find()
    if a is b:
        return a
    both = a.allowed & b.allowed
    if not both:
        raise Err("sort clash in %s: %s vs %s" % (what, "|".join(sorted(a.allowed)), "|".join(sorted(b.allowed))))
    b.up, a.allowed, a.lit = a, both, a.lit and b.lit
    return a


F3, FF, NN = ["F", "F", "F"], ["F", "F"], ["Fn", "Fn"]
SIG = {  # vocabulary with fixed argument and result sorts
    "fromM": (["Int"], "F"), "fromMn": (["Int"], "Fn"), "fofint": (["Int"], "F"), "nofint": (["Int"], "Fn"),
    "F": (["Int"], "F"), "Fn": (["Int"], "Fn"),
    "fadd": (FF, "F"), "fsub": (FF, "F"), "fmul": (FF, "F"), "nadd": (NN, "Fn"), "nsub": (NN, "Fn"), "nmul": (NN, "Fn"),
    "fneg": (["F"], "F"), "nneg": (["Fn"], "Fn"), "finv": (["F"], "F"), "ninv": (["Fn"], "Fn"),
    "fpow": (["F", "Int"], "F"), "npow": (["Fn", "Int"], "Fn"), "issq": (["F"], "Bool"),
    "modeq": (["Int", "Int", "Int"], "Bool"), "pow2": (["Int"], "Int"), "bit": (["Int", "Int"], "Int"),
    "hi": (["Int", "Int"], "Int"), "bitsumf": (["Int", "Int"], "Int"),
    "valid": (F3, "Bool"), "ptf": (F3, "G"), "aff": (FF, "G"), "affx": (["G"], "F"), "affy": (["G"], "F"),
    "gadd": (["G", "G"], "G"), "gneg": (["G"], "G"), "gzero": ([], "G"), "smul": (["Int", "G"], "G"),
    "rndblock": (["Int"], "Int"), "firstnz": (["Int"], "Int"),
}
STREAM = {"rndblock", "firstnz"}        # lemmas that mention these get the leading binder (rndblock : ℤ → ℤ)


class Ctx:
    def __init__(self, consts, defines):
        self.consts, self.defines, self.sigs, self.notes = consts, defines, {}, []

    def define_sig(self, name):
        """sorts of a `//@ define` follow from its body (inferred once, on demand)"""
        if name not in self.sigs:
            params, body, where = self.defines[name]
            self.sigs[name] = None                                    # cycle guard
            env = {p: SV(ALL) for p in params}
            try:
                ast = parse(body)
                ret = self.infer(ast, env)
                used = set(re.findall(r"\w+", body))                  # a parameter the body does not mention (X of dblY) takes
                nodes = self.resolve(ast, [env[p] for p in params if p in used] + [ret], "F", "define " + name)   # any sort
            except Err as x:
                del self.sigs[name]
                raise Err("define %s (%s): %s" % (name, where, x))
            self.sigs[name] = ([env[p].find().allowed for p in params], ret.find().allowed, ast, nodes)
        if self.sigs[name] is None:
            raise Err("recursive define " + name)
        ps, r = self.sigs[name][:2]
        return [SV(p) for p in ps], SV(r)

    def infer(self, e, env):
        k, op = e.k, e.op
        if k == "num":
            s = SV(NUM, lit=True)
        elif k == "var":
            if op in env:
                s = env[op]
            elif op in self.consts:
                s = SV("Int")
            else:
                raise Err("unknown identifier %s" % op)
        elif k == "un":
            s = unify(self.infer(e.args[0], env), SV("Bool" if op == "!" else NUM), "operand of unary " + op)
        elif k == "bin":
            a, b = self.infer(e.args[0], env), self.infer(e.args[1], env)
            if op in "+-*":
                s = unify(unify(a, b, op), SV(NUM), op)
            elif op in ("/", "%", "<", "<=", ">", ">="):
                unify(a, SV("Int"), op), unify(b, SV("Int"), op)
                s = SV("Int" if op in "/%" else "Bool")
            elif op in ("==", "!="):
                unify(a, b, op)
                s = SV("Bool")
            else:
                unify(a, SV("Bool"), op), unify(b, SV("Bool"), op)
                s = SV("Bool")
        else:
            args = [self.infer(a, env) for a in e.args]
            if op == "ite" and len(args) == 3:
                want, s = [SV("Bool"), args[1], args[1]], args[1]
            elif op == "imp" and len(args) == 2:
                want, s = [SV("Bool"), SV("Bool")], SV("Bool")
            elif op == "fint" and len(args) == 1:
                want, s = [SV(FLD)], SV("Int")
            elif op in SIG:
                want, s = [SV(x) for x in SIG[op][0]], SV(SIG[op][1])
            elif op in self.defines:
                want, s = self.define_sig(op)
            else:
                raise Err("unknown function %s" % op)
            if len(want) != len(args):
                raise Err("arity of %s" % op)
            for n, (a, w) in enumerate(zip(args, want)):
                unify(a, w, "argument %d of %s" % (n + 1, op))
        e.sv = s
        return s

    def resolve(self, ast, extra, fld_default, what):
        """make every sort concrete: literal classes default to Int; an F|Fn ambiguity is settled by `fld_default`"""
        nodes = []

        def walk(e):
            nodes.append(e)
            for a in e.args:
                walk(a)
        walk(ast)
        for sv in [n.sv for n in nodes] + extra:
            r = sv.find()
            if len(r.allowed) > 1 and r.lit and "Int" in r.allowed:
                r.allowed = frozenset(["Int"])
            elif r.allowed == FLD:
                r.allowed = frozenset([fld_default])
                self.notes.append("%s: a parameter is used only under fint(); its sort (F or Fn) is not determined by the body, taken as %s" % (what, fld_default))
            if len(r.allowed) != 1:
                raise Err("%s: sort not determined (%s)" % (what, "|".join(sorted(r.allowed))))
        return nodes


def sort_of(x):
    return next(iter((x.sv if isinstance(x, E) else x).find().allowed))


# ---------------------------------------------------------------- 3. Lean printer (conventions of SecpSMT.lean, section 3)
ATOM, APP = 1024, 1000
LEAN_NAME = {"valid": "Secp.Valid", "issq": "IsSquare", "rndblock": "rndblock",
             "rcbX": "Secp.rcbX", "rcbY": "Secp.rcbY", "rcbZ": "Secp.rcbZ", "dblX": "Secp.dblX", "dblY": "Secp.dblY", "dblZ": "Secp.dblZ"}
MODULUS = {"fromM": "SecpSMT.P", "fromMn": "SecpSMT.N", "fofint": "SecpSMT.P", "nofint": "SecpSMT.N"}
INFIX = {"fadd": "+", "fsub": "-", "fmul": "*", "nadd": "+", "nsub": "-", "nmul": "*", "gadd": "+"}
KEYWORDS = set("at by do fun from have show then else if let in with where match end open section namespace instance def theorem "
               "example axiom variable universe import export deriving structure class inductive abbrev macro syntax notation "
               "infix prefix postfix mutual private protected partial unsafe local scoped set_option attribute calc suffices obtain "
               "using extends for unless return try catch finally nomatch nofun Type Sort Prop".split())


def ident(p):
    return "«%s»" % p if p in KEYWORDS else p


def wrap(sp, need):
    return "(%s)" % sp[0] if sp[1] < need else sp[0]


def chain(e, op):
    """operands of a chain of && / || (Go parses it left-nested; Lean's ∧ / ∨ associate to the right: one flat list)"""
    return chain(e.args[0], op) + chain(e.args[1], op) if e.k == "bin" and e.op == op else [e]


def lean(e):
    """-> (text, precedence of its head)"""
    k, op = e.k, e.op
    if k == "num":
        return ("(%s : ℤ)" % op if sort_of(e) == "Int" else "((%s : ℤ) : %s)" % (op, LEAN_SORT[sort_of(e)])), ATOM
    if k == "var":
        if e.const:
            return ("(SecpSMT.%s : ℤ)" % op if op in ("P", "N") else "SecpSMT." + op), ATOM   # P, N are ℕ in Lean, the rest ℤ
        return ident(op), ATOM
    if k == "un":
        a = lean(e.args[0])
        return ("¬ " + wrap(a, APP), 40) if op == "!" else ("-" + wrap(a, ATOM), 60)
    if k == "bin":
        if op in ("&&", "||"):
            parts = [lean(x) for x in chain(e, op)]
            p = 35 if op == "&&" else 30
            return (" ∧ " if op == "&&" else " ∨ ").join(wrap(x, p + 1) for x in parts), p
        a, b = lean(e.args[0]), lean(e.args[1])
        if op in "+-*/%":
            p = 65 if op in "+-" else 70
            return "%s %s %s" % (wrap(a, p), op, wrap(b, p + 1)), p
        if op in ("==", "!=") and sort_of(e.args[0]) == "Bool":             # == between two Bool expressions is ↔
            s = "%s ↔ %s" % (wrap(a, APP), wrap(b, APP))
            return (s, 20) if op == "==" else ("¬ (%s)" % s, 40)
        return "%s %s %s" % (wrap(a, 51), {"==": "=", "!=": "≠", "<=": "≤", ">=": "≥"}.get(op, op), wrap(b, 51)), 50
    a = [lean(x) for x in e.args]
    if op == "imp":
        return "%s → %s" % (wrap(a[0], 26), wrap(a[1], 25)), 25
    if op == "ite":
        return "if %s then %s else %s" % (a[0][0], a[1][0], a[2][0]), 0
    if op in ("F", "Fn"):
        inner = e.args[0].op if e.args[0].k == "num" else a[0][0]
        return "((%s : ℤ) : SecpSMT.%s)" % (inner, op), ATOM
    if op in INFIX:
        p = 65 if INFIX[op] != "*" else 70
        return "%s %s %s" % (wrap(a[0], p), INFIX[op], wrap(a[1], p + 1)), p
    if op in ("fneg", "nneg", "gneg"):
        return "-" + wrap(a[0], ATOM), 60
    if op in ("finv", "ninv"):
        return wrap(a[0], ATOM) + "⁻¹", 100
    if op == "smul":
        return "%s • %s" % (wrap(a[0], 74), wrap(a[1], 73)), 73
    if op == "gzero":
        return "(0 : SecpSMT.G)", ATOM
    if op == "modeq":
        return "%s ≡ %s [ZMOD %s]" % (wrap(a[0], 51), wrap(a[1], 51), a[2][0]), 50
    head = LEAN_NAME.get(op, "SecpSMT." + ("fpow" if op == "npow" else "fromM" if op == "fromMn" else "fofint" if op == "nofint" else op))
    extra = [MODULUS[op]] if op in MODULUS else ["rndblock"] if op == "firstnz" else []
    return " ".join([head] + extra + [wrap(x, ATOM) for x in a]), APP


def binders(params, sorts):
    out, i = [], 0
    while i < len(params):
        j = i
        while j < len(params) and sorts[j] == sorts[i]:
            j += 1
        out.append("(%s : %s)" % (" ".join(ident(p) for p in params[i:j]), sorts[i]))
        i = j
    return " ".join(out)


def mark_consts(nodes, params, consts):
    for n in nodes:
        n.const = n.k == "var" and n.op not in params and n.op in consts


def translate(ctx, lm):
    """-> the Lean proposition `∀ (params), statement` of one lemma line"""
    ast = parse(lm["body"])
    env = {p: SV(ALL) for p in lm["params"]}
    if len(env) != len(lm["params"]):
        raise Err("duplicate parameter")
    unify(ctx.infer(ast, env), SV("Bool"), "lemma body")
    used = set(re.findall(r"\w+", lm["body"]))
    over_n = lm["name"].endswith("_n") or bool(used & {"fromMn", "nofint", "nadd", "nsub", "nmul", "nneg", "ninv", "npow", "Fn"}) \
        or ("N" in used and "P" not in used)                       # which prime field a parameter seen only under fint() is in
    nodes = ctx.resolve(ast, list(env.values()), "Fn" if over_n else "F", "lemma " + lm["name"])
    mark_consts(nodes, lm["params"], ctx.consts)
    params, sorts = list(lm["params"]), [LEAN_SORT[sort_of(env[p])] for p in lm["params"]]
    if any(n.k == "call" and n.op in STREAM for n in nodes):
        params, sorts = ["rndblock"] + params, ["ℤ → ℤ"] + sorts
    return ("∀ %s, " % binders(params, sorts) if params else "") + lean(ast)[0]


# ---- VOCAB CHECK: the `def`s of SecpSMT.lean section 1 against the `//@ const` / `//@ define` lines (same printer)
def vocab_checks(ctx, text):
    """-> [(name, example line)] for every const / define that has a Lean definition in the hand-written module `text`"""
    out = []
    for c, val in ctx.consts.items():
        if c in ("P", "N") and re.search(r"^abbrev %s : ℕ :=" % c, text, re.M):
            out.append((c, "example : SecpSMT.%s = %s := by with_reducible rfl" % (c, val)))
        elif re.search(r"^def %s : ℤ :=" % c, text, re.M):
            out.append((c, "example : SecpSMT.%s = (%s : ℤ) := by unfold SecpSMT.%s; with_reducible rfl" % (c, val, c)))
    for d, (params, body, where) in ctx.defines.items():
        lname = LEAN_NAME.get(d, "SecpSMT." + d)
        by_def = "SecpSMT.%s_def" % d if re.search(r"^theorem %s_def\b" % d, text, re.M) else None     # rcbX_def .. dblZ_def
        if not by_def and not re.search(r"^(noncomputable )?def %s\b" % d, text, re.M):
            continue
        try:
            ctx.define_sig(d)
            ps, ret, ast, nodes = ctx.sigs[d]
            mark_consts(nodes, params, ctx.consts)
            lhs = " ".join([lname] + [ident(p) for p in params])
            st = "%s %s %s" % (lhs, "↔" if ret == {"Bool"} else "=", wrap(lean(ast), 51 if ret != {"Bool"} else APP))
            bs = binders(params, [LEAN_SORT[next(iter(p))] if len(p) == 1 else "_" for p in ps])
            proof = TACTIC + by_def if by_def else "by intros; unfold %s; with_reducible rfl" % lname
            out.append((d, "example : ∀ %s, %s := %s" % (bs, st, proof)))
        except Err as x:
            out.append((d, "-- define %s (%s) not translated: %s" % (d, where, x)))
    return out


# ---------------------------------------------------------------- 4. files
def hand_module(name, texts):
    for mod in HAND:
        if re.search(r"^theorem %s\b" % re.escape(name), texts[mod].split("## 3. The lemmas", 1)[-1], re.M):
            return mod
    return None


def generate():
    """-> ({module: file text}, [(lemma, where, module, statement or None, error or None)], notes)"""
    consts, defines, declares, lemmas = read_contracts()
    texts = {m: open(os.path.join(ROOT, "Secp", m + ".lean"), encoding="utf-8").read() for m in HAND}
    ctx = Ctx(consts, defines)
    for name, (args, ret) in declares.items():
        if name in SIG and (args, ret) != (SIG[name][0], SIG[name][1]):
            ctx.notes.append("//@ declare %s(%s) %s disagrees with the generator's table" % (name, ", ".join(args), ret))
    rows, body = [], {g: [] for g in IMPORTS}
    for lm in lemmas:
        mod = hand_module(lm["name"], texts)
        gen = TARGET.get(mod, "GenSMT")
        try:
            st, err = translate(ctx, lm), None
            body[gen] += ["-- %s (%s): %s" % (lm["name"], lm["where"], lm["body"]), "example : %s := %sSecpSMT.%s" % (st, TACTIC, lm["name"])]
        except Err as x:
            st, err = None, str(x)
            body[gen] += ["-- %s (%s): NOT TRANSLATED: %s" % (lm["name"], lm["where"], err)]
        rows.append((lm["name"], lm["where"], gen, st, err))
    files = {}
    for gen, imps in IMPORTS.items():
        head = ["import " + i for i in imps] + [
            "", "/-! GENERATED by scripts/gen_statements.py from the `//@ lemma` / `//@ define` / `//@ const` lines of the contract files.",
            "Do not edit: build.sh rewrites this file.  Each `example` makes Lean check that the mechanically translated statement",
            "is the statement of the hand-written theorem, up to reducible unfolding only (README, \"Mechanical statement check\"). -/", "",
            "/-! ## lemmas -/", ""]
        voc = ["", "/-! ## vocabulary: `//@ const` and `//@ define` lines against the `def`s (VOCAB) -/", ""]
        for name, line in vocab_checks(ctx, texts[imps[0]]):
            voc += ["-- VOCAB " + name, line]
        files[gen] = "\n".join(head + body[gen] + voc) + "\n"
    return files, rows, ctx.notes


def example_lines(gen):
    """{lemma: line number of its example} and {vocab name: line number} of Secp/<gen>.lean as it is on disk"""
    lem, voc, pending = {}, {}, None
    try:
        for n, line in enumerate(open(os.path.join(ROOT, "Secp", gen + ".lean"), encoding="utf-8"), 1):
            m = re.match(r"example : .* := %sSecpSMT\.(\w+)$" % re.escape(TACTIC), line)
            if line.startswith("-- VOCAB "):
                pending = line[9:].strip()
            elif line.startswith("example") and pending:
                voc[pending], pending = n, None
            elif m:
                lem[m.group(1)] = n
    except OSError:
        pass
    return lem, voc


def stamp(status):
    """JSON for build/stamp.json: a lemma is checked iff its example exists and compiled without an error on its line"""
    files, rows, notes = generate()
    failed, vfailed, nvoc, stale = [], [], 0, []
    for gen in IMPORTS:
        lem, voc = example_lines(gen)
        path = os.path.join(ROOT, "Secp", gen + ".lean")
        if not os.path.exists(path) or open(path, encoding="utf-8").read() != files[gen]:
            stale.append(gen)
        bad = set()
        if status.get(gen) != "true":
            log = os.path.join(ROOT, "build", "logs", gen + ".log")
            errs = re.findall(r"^%s\.lean:(\d+):\d+: error" % gen, open(log, encoding="utf-8").read(), re.M) if os.path.exists(log) else []
            bad = set(int(x) for x in errs) if errs else None           # None: not compiled at all, nothing counts
        for name, where, g, st, err in rows:
            if g == gen and (gen in stale or name not in lem or bad is None or lem[name] in bad):
                failed.append(name)
        nvoc += len(voc)
        vfailed += [v for v, n in voc.items() if gen in stale or bad is None or n in bad]
    out = {"lemmas": len(rows), "checked": len(rows) - len(failed), "failed": failed,
           "vocabulary": {"definitions": nvoc, "checked": nvoc - len(vfailed), "failed": sorted(vfailed)}}
    if stale:
        out["error"] = "Secp/%s.lean is not the generator's output" % ", ".join(stale)
    return out


def main():
    if "--stamp" in sys.argv:
        print(json.dumps(stamp(dict(a.split("=", 1) for a in sys.argv[1:] if "=" in a)), ensure_ascii=False))
        return 0
    files, rows, notes = generate()
    for gen, text in files.items():
        path = os.path.join(ROOT, "Secp", gen + ".lean")
        if not os.path.exists(path) or open(path, encoding="utf-8").read() != text:
            open(path, "w", encoding="utf-8").write(text)
    bad = [r for r in rows if r[4]]
    if "--quiet" not in sys.argv:
        for name, where, gen, st, err in rows:
            print("%s [%s -> %s]: %s" % (name, where, gen, st if st else "NOT TRANSLATED: " + err))
    for n in notes:
        print("note:", n, file=sys.stderr)
    for r in bad:
        print("gen_statements: %s (%s) not translated: %s" % (r[0], r[1], r[4]), file=sys.stderr)
    print("gen_statements: %d lemma lines, %d translated" % (len(rows), len(rows) - len(bad)), file=sys.stderr)
    return 1 if bad else 0


if __name__ == "__main__":
    sys.exit(main())
