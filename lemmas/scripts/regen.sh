#!/usr/bin/env bash
# Regenerate the two generated Lean files of the lemma library (needs sympy: python3-vt).
#   Secp/SecpPrime.lean  <- genpratt.py            (Pratt/Lucas chain for P and N, ~20 s of factorint)
#   Secp/SecpI.lean      <- SecpI.lean.in + isoq.py (quotient polynomial Q for M2)
# The generated files are committed; build.sh never calls this script.
# The generators are untrusted: Lean re-checks everything they print.
set -euo pipefail
here="$(cd "$(dirname "${BASH_SOURCE[0]}")" && pwd)"
out="$here/../Secp"
PY="${PYTHON:-python3-vt}"
tmp="$(mktemp -d)"
trap 'rm -rf "$tmp"' EXIT
cd "$tmp"
"$PY" "$here/isoq.py"          # writes isoQ.txt
"$PY" "$here/genpratt.py"      # writes SecpPrime.lean
"$PY" - "$here/SecpI.lean.in" isoQ.txt "$out/SecpI.lean" <<'PYEOF'
import sys
tpl, q, dst = sys.argv[1:4]
marker = "<Q(x): 16 integer coefficients printed by isoq.py>"
s = open(tpl, encoding="utf-8").read()
assert s.count(marker) == 1
open(dst, "w", encoding="utf-8").write(s.replace(marker, open(q).read().strip()))
PYEOF
# genpratt.py writes no final newline; add one
{ cat SecpPrime.lean; echo; } > "$out/SecpPrime.lean"
echo "regenerated $out/SecpI.lean $out/SecpPrime.lean"
