from sympy import *
x1,y1,x2,y2,x,y=symbols('x1 y1 x2 y2 x y')
def rcb(X1,Y1,Z1,X2,Y2,Z2):
    X3=(X1*Y2+X2*Y1)*(Y1*Y2-21*Z1*Z2)-21*(Y1*Z2+Y2*Z1)*(X1*Z2+X2*Z1)
    Y3=(Y1*Y2+21*Z1*Z2)*(Y1*Y2-21*Z1*Z2)+63*X1*X2*(X1*Z2+X2*Z1)
    Z3=(Y1*Z2+Y2*Z1)*(Y1*Y2+21*Z1*Z2)+3*X1*X2*(X1*Y2+X2*Y1)
    return X3,Y3,Z3
def lean(e):
    return str(e).replace('**','^')
def cert(name,E,hyps,gens):
    q,r=reduced(expand(E),hyps,*gens,order='lex')
    assert r==0,(name,r)
    print(f"-- {name}\n  linear_combination "+" + ".join(f"({lean(c)}) * e{i+1}" for i,c in enumerate(q)))
h1=y1**2-x1**3-7; h2=y2**2-x2**3-7
X3,Y3,Z3=rcb(x1,y1,1,x2,y2,1)
d=x1-x2
Ln=y1-y2
x3n=Ln**2-(x1+x2)*d**2
y3n=-(Ln*(x3n-x1*d**2)+y1*d**3)
xmn=(y1+y2)**2-(x1+x2)*d**2
G=(y1,y2,x1,x2)
cert('chordX: X3*d^2 - x3n*Z3', X3*d**2-x3n*Z3,[h1,h2],G)
cert('chordY: Y3*d^3 - y3n*Z3', Y3*d**3-y3n*Z3,[h1,h2],G)
cert('chordZ: xmn^3+7d^6 - Z3^2', xmn**3+7*d**6-Z3**2,[h1,h2],G)
# doubling: P=Q
h=y**2-x**3-7
X,Y,Z=rcb(x,y,1,x,y,1)
ln=3*x**2; dd=2*y
x3d=ln**2-2*x*dd**2
y3d=-(ln*(x3d-x*dd**2)+y*dd**3)
cert('dblZ: Z - 8y^3',Z-8*y**3,[h],(y,x))
cert('dblX: X*dd^2 - x3d*Z',X*dd**2-x3d*Z,[h],(y,x))
cert('dblY: Y*dd^3 - y3d*Z',Y*dd**3-y3d*Z,[h],(y,x))
# P=-Q
X,Y,Z=rcb(x,y,1,x,-y,1)
print('neg X,Z:',expand(X),expand(Z))
cert('negY: x2Pn^3+7dd^6 - Y^2', x3d**3+7*dd**6-Y**2,[h],(y,x))
