#!/usr/bin/env python3
"""Extract the Lean / python sources of DESIGN.md Appendix E verbatim.

usage: extract_appendix.py <DESIGN.md> <lean-outdir> <py-outdir>

Each `#### `Name.ext` — ...` heading inside Appendix E is followed by exactly one fenced block;
the block body is written byte-for-byte (plus a final newline) to <outdir>/Name.ext.
Provenance tool only: the build does not run it.
"""
import re
import sys
import os

design, leandir, pydir = sys.argv[1:4]
lines = open(design, encoding="utf-8").read().split("\n")
start = next(i for i, l in enumerate(lines) if l.startswith("## Appendix E."))
end = next(i for i, l in enumerate(lines) if l.startswith("## Appendix F."))
head = re.compile(r"^#### `([A-Za-z0-9_]+\.(lean|py))`")
i = start
n = 0
while i < end:
    m = head.match(lines[i])
    if not m:
        i += 1
        continue
    name, ext = m.group(1), m.group(2)
    j = i + 1
    while not lines[j].startswith("```"):
        j += 1
    fence = lines[j].strip()
    assert fence == ("```lean" if ext == "lean" else "```python"), (name, fence)
    k = j + 1
    while lines[k].strip() != "```":
        k += 1
    body = "\n".join(lines[j + 1:k]) + "\n"
    out = os.path.join(leandir if ext == "lean" else pydir, name)
    open(out, "w", encoding="utf-8").write(body)
    print(f"{name}: DESIGN.md lines {j + 2}-{k} -> {out}")
    n += 1
    i = k + 1
print(n, "files")
