#!/usr/bin/env python3
"""How the certificates of Secp/SecpSMT3.lean (iso_hom_chord) were found.  Reference only; Lean re-checks everything.
Needs sympy (python3-vt).  usage: isohom.py

1. the 256-bit constants of RFC 9380 E.1 are a one-parameter family in w = x0/6 (x0 = -K21/2 = kernel x-coordinate):
   xden = (x - x0)^2, yden = (x - x0)^3, A' = -120 w^2, B' = 506 w^3, 2 w^3 = 7, and with t = x - x0
   9 xnum = t^3 + 6w t^2 - 24 w^2 t + 8 w^3, 27 ynum = t^3 + 24 w^2 t - 16 w^3   (Velu for the kernel {O, (0, +-sqrt(2w^3))}
   of y^2 = t^3 + 18w t^2 - 12 w^2 t + 2 w^3, then X -> (X + 6w)/9, Y -> Y/27);  7 is a non-residue mod P.
2. line_T: the images of the points (t, l t + m) of E' lie on Y = L X + M; L, M and the cofactor (al t + be) are the
   solution of a linear system (5 equations, 4 unknowns).
3. sum_T: X(t1) + X(t2) + X(t3) = L^2 in terms of the elementary symmetric functions (Vieta).
4. vieta, Xdiff, Hdisc: small identities.
"""
from sympy import symbols, Poly, expand, solve, factor, simplify, div

P = 2**256 - 2**32 - 977
A = 0x3f8731abdd661adca08a5558f0f5d272e953d363cb6f0e5d405447c01a444533
B = 1771
K = dict(
    k10=0x8e38e38e38e38e38e38e38e38e38e38e38e38e38e38e38e38e38e38daaaaa8c7,
    k11=0x7d3d4c80bc321d5b9f315cea7fd44c5d595d2fc0bf63b92dfff1044f17c6581,
    k12=0x534c328d23f234e6e2a413deca25caece4506144037c40314ecbd0b53d9dd262,
    k13=0x8e38e38e38e38e38e38e38e38e38e38e38e38e38e38e38e38e38e38daaaaa88c,
    k20=0xd35771193d94918a9ca34ccbb7b640dd86cd409542f8487d9fe6b745781eb49b,
    k21=0xedadc6f64383dc1df7c4b2d51b54225406d36b641f5e41bbc52a56612a8c6d14,
    k30=0x4bda12f684bda12f684bda12f684bda12f684bda12f684bda12f684b8e38e23c,
    k31=0xc75e0c32d5cb7c0fa9d0a54b12a0a6d5647ab046d686da6fdffc90fc201d71a3,
    k32=0x29a6194691f91a73715209ef6512e576722830a201be2018a765e85a9ecee931,
    k33=0x2f684bda12f684bda12f684bda12f684bda12f684bda12f684bda12f38e38d84,
    k40=0xfffffffffffffffffffffffffffffffffffffffffffffffffffffffefffff93b,
    k41=0x7a06534bb8bdb49fd5e9e6632722c2989467c1bfc8e8d978dfb425d2685c2573,
    k42=0x6484aa716545ca2cf3a70c3fa8fe337e0a3d21162f0d6299a7bf8192bfd2a76f)
inv = lambda a: pow(a, P - 2, P)

# ---- 1. the constants ----
x0 = (-K['k21'] * inv(2)) % P
W = x0 * inv(6) % P
print("W0C =", hex(W))
checks = {
    "2w^3 = 7": 2 * W**3 - 7, "AC = -120w^2": A + 120 * W**2, "BC = 506w^3": B - 506 * W**3,
    "K21 = -12w": K['k21'] + 12 * W, "K20 = 36w^2": K['k20'] - 36 * W**2,
    "K42 = -18w": K['k42'] + 18 * W, "K41 = 108w^2": K['k41'] - 108 * W**2, "K40 = -216w^3": K['k40'] + 216 * W**3,
    "9K13 = 1": 9 * K['k13'] - 1, "9K12 = -12w": 9 * K['k12'] + 12 * W, "9K11 = 12w^2": 9 * K['k11'] - 12 * W**2,
    "9K10 = 152w^3": 9 * K['k10'] - 152 * W**3,
    "27K33 = 1": 27 * K['k33'] - 1, "27K32 = -18w": 27 * K['k32'] + 18 * W, "27K31 = 132w^2": 27 * K['k31'] - 132 * W**2,
    "27K30 = -376w^3": 27 * K['k30'] + 376 * W**3,
}
for k, v in checks.items():
    assert v % P == 0, k
print(len(checks), "constant identities hold mod P;  7 is a non-residue:", pow(7, (P - 1) // 2, P) == P - 1)

# ---- 2. line_T ----
t, l, m, w, L, M, al, be = symbols('t l m w L M al be')
g = lambda t: t**3 + 18*w*t**2 - 12*w**2*t + 2*w**3
xn = lambda t: t**3 + 6*w*t**2 - 24*w**2*t + 8*w**3
yn = lambda t: t**3 + 24*w**2*t - 16*w**3
assert expand(g(t) * yn(t)**2 - xn(t)**3 - 1458 * w**3 * t**6) == 0          # on_curve_T
C = expand(g(t) - (l*t + m)**2)
E = expand((l*t + m) * yn(t) - 3*L*t*xn(t) - 27*M*t**3 - (al*t + be) * C)      # 27 t^3 (Y - L X - M) = (al t + be) C
sol = solve(Poly(E, t).all_coeffs(), [L, M, al, be], dict=True)[0]
for k, v in sol.items():
    print(k, "=", factor(v))
s = m**2 - 2*w**3
NL = l*m**2 + 6*l*w**3 + 24*m*w**2
NM = -8*l**3*w**3 - 24*l**2*m*w**2 - 6*l*m**2*w + 108*l*w**4 + m**3 + 270*m*w**3
assert simplify(sol[L] - NL / (3*s)) == 0 and simplify(sol[M] - NM / (27*s)) == 0
q, r = div(Poly(expand((l*t + m) * yn(t) * s - NL*t*xn(t) - NM*t**3), t), Poly(C, t))
assert r.is_zero
print("line_T cofactor of (g - (lt+m)^2):", q.as_expr())

# ---- 3. sum_T ----
s1 = l**2 - 18*w; s2 = -12*w**2 - 2*l*m; s3 = m**2 - 2*w**3
assert expand((s1 + 18*w)*s3**2 - 24*w**2*s3*s2 + 8*w**3*(s2**2 - 2*s1*s3) - NL**2) == 0

# ---- 4. vieta, Xdiff, Hdisc ----
t1, t2, y1, y2 = symbols('t1 t2 y1 y2')
mm = y1 - l*t1; t3 = l**2 - t1 - t2 - 18*w; d = t2 - t1
E1 = y1**2 - g(t1); E2 = y2**2 - g(t2); EL = l*d - (y2 - y1)
V2 = (t1*t2 + t1*t3 + t2*t3) - (-12*w**2 - 2*l*mm)
assert expand(d*V2 - (-E1 + E2 + (l*t2 + mm + y2)*EL)) == 0
assert expand(t1*t2*t3 - (mm**2 - 2*w**3) - (-E1 + t1*V2)) == 0
H = t1**2*t2**2 + 24*w**2*t1*t2 - 8*w**3*(t1 + t2)
assert expand(xn(t2)*t1**2 - xn(t1)*t2**2 - d*H) == 0
assert expand((2*t1**2*t2 + 24*w**2*t1 - 8*w**3)**2 - 4*t1**2*H - 2*w**3*(4*y1)**2 - (-32*w**3)*E1) == 0
print("all identities ok")
