import sys, time
from sympy import factorint, isprime
sys.setrecursionlimit(10000)
P=2**256-2**32-977
N=0xfffffffffffffffffffffffffffffffebaaedce6af48a03bbfd25e8cd0364141
def pratt(p, depth=0, seen={}):
    if p in seen or p < 1000: return
    t=time.time()
    f=factorint(p-1)
    seen[p]=f
    print('  '*depth, p.bit_length(),'bits: p-1 =', {int(k):v for k,v in f.items()}, f'{time.time()-t:.1f}s', flush=True)
    for q in f:
        pratt(int(q), depth+1, seen)
for name,v in (('P',P),('N',N)):
    print(name, flush=True); pratt(v)
