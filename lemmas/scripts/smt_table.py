#!/usr/bin/env python3
"""SMT-lemma table of ../README.md and coverage check of Secp/SecpSMT.lean + Secp/SecpSMT2.lean + Secp/SecpSMT3.lean.

Reads the `//@ lemma name(params) {lean: ...}: body` lines of the three contract files and of the lemma programs
/verif/clients/*.go (all read-only), looks up `theorem <name>` in section 3 of Secp/SecpSMT.lean, Secp/SecpSMT2.lean and Secp/SecpSMT3.lean, and
  * reports lemma lines without a theorem, theorems missing from build.sh's THEOREMS list, and theorems
    without an entry in RESTS below (exit status 1 if any),
  * treats the lemmas of ASSUMED below as intentionally unproved: each must carry a `{lean: ASSUMED ...}` tag in
    the contract file, must NOT have a theorem, must NOT be in build.sh's THEOREMS list, must be in build.sh's
    ASSUMED list, and must have its literal translation recorded as `def <name>_statement ... : Prop` in
    SecpSMT.lean; a lemma tagged ASSUMED that is not in the allowlist and has no theorem is an error; one that is
    tagged ASSUMED but HAS a theorem (proved after the tag was written; the contract files are read-only here) is
    reported as a note and treated as proved (listed in STALE_TAG_OK below),
  * reads the `//@ define` / `//@ const` / `//@ declare` lines of /verif/clients/*.go (none at the time of writing): each
    name must have a `def`/`abbrev` of the same name in the vocabulary of SecpSMT.lean (before section 3),
  * checks that every line between `-- BEGIN SHARED` and `-- END SHARED` of SecpSMT2.lean (the vocabulary it has
    to repeat because it cannot import SecpSMT.lean) is verbatim a line of SecpSMT.lean,
  * checks the mechanical statement check (gen_statements.py, same directory): every lemma line must have a generated
    `example : <translated statement> := by with_reducible exact SecpSMT.<name>` in Secp/GenSMT.lean or Secp/GenSMT2.lean,
    and the two files must be exactly what the generator produces now (whether the examples COMPILE is build.sh's
    business: build/stamp.json, "mechanical_statement_check"),
  * rewrites the block between `<!-- BEGIN SMT LEMMAS -->` and `<!-- END SMT LEMMAS -->` of ../README.md
    (statement column = source text from `theorem` up to `:=`, whitespace collapsed).
Plain python3, no third-party modules.  usage: smt_table.py [--check]   (--check: do not rewrite README.md)
"""
import glob
import os
import re
import sys

here = os.path.dirname(os.path.abspath(__file__))
root = os.path.dirname(here)
sys.path.insert(0, here)
sys.dont_write_bytecode = True
import gen_statements  # noqa: E402
CONTRACTS = ["/repo/internal/field/contracts_verif.go", "/repo/internal/scalar/contracts_verif.go",
             "/repo/contracts_verif.go"]
CLIENT_GLOB = "/verif/clients/*.go"   # lemma programs of package secp256k1: same `//@` syntax and vocabulary


def client_files():
    return sorted(glob.glob(CLIENT_GLOB))


def label(f):
    """path shown in the table: relative to /repo for the contract files, to /verif for the lemma programs"""
    return os.path.relpath(f, "/repo") if f.startswith("/repo/") else os.path.relpath(f, "/verif")

PRIME_P = "`Secp.prime_P`"
PRIME_N = "`Secp.prime_N`"
# name -> what the proof rests on (library theorem / Mathlib)
RESTS = {
    "glue_add": "`Gen.glue_add`: `ZMod.intCast_mod`, `ring`",
    "glue_sub": "`Gen.glue_sub`: `ZMod.intCast_mod`, `ring`",
    "glue_neg": "`Gen.glue_neg`: `ZMod.intCast_mod`, `ring`",
    "glue_mul": "`Secp.glue_mul` (G1) via `Gen.glue_mul`; `ZMod.intCast_eq_intCast_iff`; " + PRIME_P,
    "glue_to": "`Secp.glue_to` (G3) via `Gen.glue_to`; `hR2P` (R2P = R^2 mod P by `norm_num`); " + PRIME_P,
    "glue_from": "`Secp.glue_from` (G2) via `Gen.glue_from`; `ZMod.val_intCast`, `Int.emod_eq_of_lt`; " + PRIME_P,
    "glue_zero": "`Secp.glue_inj` (G4) at y = 0 via `Gen.glue_zero`; " + PRIME_P,
    "glue_inj": "`Secp.glue_inj` (G4) via `Gen.glue_inj`; `Int.emod_eq_of_lt`; " + PRIME_P,
    "fofint_mod": "`Gen.fofint_mod`: `ZMod.intCast_zmod_eq_zero_iff_dvd`",
    "fint_range": "`Gen.fint_range`: `ZMod.val_lt`",
    "fofint_fint": "`Gen.fofint_fint`: `ZMod.val_intCast`, `Int.emod_eq_of_lt`",
    "fofint_wide": "`Gen.fofint_wide`: `push_cast; ring`",
    "fofint_lin": "`Gen.fofint_lin`: `push_cast; ring`",
    "fermat_inv": "`Secp.fermat_inv` (F1) via `Gen.fermat_inv`; " + PRIME_P,
    "sqrt_ratio_one": "`Secp.sqrt_ratio_3mod4` (S1) at v = 1 (Z = c2 = 0, only the first conjunct is used); " + PRIME_P,
    "glue_add_n": "`Gen.glue_add`",
    "glue_sub_n": "`Gen.glue_sub`",
    "glue_mul_n": "`Secp.glue_mul` (G1) via `Gen.glue_mul`; " + PRIME_N,
    "glue_to_n": "`Secp.glue_to` (G3) via `Gen.glue_to`; `hR2N`; " + PRIME_N,
    "glue_from_n": "`Secp.glue_from` (G2) via `Gen.glue_from`; " + PRIME_N,
    "glue_zero_n": "`Secp.glue_inj` (G4) via `Gen.glue_zero`; " + PRIME_N,
    "glue_inj_n": "`Secp.glue_inj` (G4) via `Gen.glue_inj`; " + PRIME_N,
    "nofint_mod": "`Gen.fofint_mod`",
    "nint_range": "`Gen.fint_range`",
    "nofint_fint": "`Gen.fofint_fint`",
    "nofint_wide": "`Gen.fofint_wide`",
    "fermat_inv_n": "`Secp.fermat_inv` (F1) via `Gen.fermat_inv`; " + PRIME_N,
    "rcb_add": "`Secp.rcb_add` (E1); `Secp.hypP` (N1); " + PRIME_P,
    "rcb_dbl": "`Secp.rcb_dbl` (E2); `Secp.hypP`; " + PRIME_P,
    "pt_neg": "`Secp.pt_neg` (E4); `Secp.hypP`; " + PRIME_P,
    "pt_identity_iff": "`Secp.pt_identity_iff` (E4); `Secp.hypP`; " + PRIME_P,
    "pt_eq_iff": "`Secp.pt_eq_iff` (E3); `Secp.hypP`; " + PRIME_P,
    "gneg_zero": "`neg_zero`",
    "valid_identity": "`Secp.pt_zero` (SecpD); `ring`",
    "bit_def": "`rfl` (definition of `bit`)",
    "bit_limb": "`Int.ediv_ediv_of_nonneg`, `Int.add_mul_ediv_left`, `Int.ediv_eq_zero_of_lt`, `Int.add_mul_emod_self_right`",
    "hi_step": "`Int.ediv_ediv_of_nonneg`, `omega`",
    "hi_top": "`Int.ediv_eq_zero_of_lt`",
    "hi_zero": "`simp` (`Int.ediv_one`)",
    "smul_add": "`add_smul`",
    "smul_zero": "`zero_smul`",
    "smul_one": "`one_smul`",
    "pt_of_affine": "`Secp.valid_of_affine`, `Secp.pt_of_affine` (E4); `Secp.hypP`; " + PRIME_P,
    "aff_coords": "`Secp.pt_aff`, `Secp.valid_aff` (SecpD); `div_eq_inv_mul`; " + PRIME_P,
    "aff_of": "`Secp.mkPt_ne_zero` (SecpE); definitions of `aff`, `affx`, `affy`; " + PRIME_P,
    "neg_parity": "`ZMod.neg_val`, `ZMod.val_lt`, P odd, `omega`",
    "fneg_sq": "`neg_mul_neg`",
    "poly_nonzero": "`Secp.Hyp.nocube` of `Secp.hypP` (N1); " + PRIME_P,
    "sq_zero": "`mul_self_eq_zero`",
    "firstnz_step": "definition of `firstnz` (`Nat.find`); `Nat.find_eq_zero`, `Nat.find_eq_iff`, `Nat.find_min`",
    "neg_zero_iff": "`neg_eq_zero`",
    "sswu_on_curve": "`Secp.sswu_on_curve` (M1) with `tv1..gxd` := the `sswu_*` defines and `y1` := `sr_y1(gxn, gxd)`; "
                     "`Secp.sqrt_ratio_3mod4` (S1) inside M1; `ZC_cast`, `AC_cast`, `BC_cast`, `C2_cast` "
                     "(contract constants = `Secp.Zc`, `Secp.A'`, `Secp.B'`, `Secp.c2`); " + PRIME_P,
    "iso_valid": "`Secp.iso_on_curve` (M2), `field_simp`; `K10_cast` .. `K42_cast` (contract constants = `Secp.k10` .. "
                 "`Secp.k42`); the `iso_id` branch is `(0, 1, 0)`",
    "iso_hom_chord": "`SecpSMT3.lean`: in `t = x - 6w` the isogeny is Vélu's one-parameter family (`AC_w` .. `K30_w`, `2w³ = 7`); "
                     "no point of E'(F_P) is in the kernel because 7 is not a square mod P (`seven_nonsq`, `not_kernel`), so `iso_id` never holds; "
                     "collinear points map to collinear points (`line_T`), `X1 + X2 + X3 = L²` (`sum_T`, `vieta`), `X2 ≠ X1` (`X_ne`, `Hdisc`), "
                     "then `Affine.Point.add_of_X_ne` (`hom_T`); `chord_on_curve`; `Secp.pt_of_affine` (E4); `Secp.hypP`; " + PRIME_P,
    "chord_on_curve": "`linear_combination` (x2 - x3)·e1 + (x3 - x1)·e2 + (x3 - x1)(y2 + y1 + l(x2 - x1))·(l(x2 - x1) = y2 - y1), "
                      "then cancel `x2 - x1 ≠ 0` (`mul_eq_zero`); any field, any A', B'",
    "same_x_parity": "`Secp.eqn_iff` (SecpB) on both points, `(y - y')(y + y') = 0` (`mul_eq_zero`); `y = -y'` with `y' ≠ 0` "
                     "contradicts `neg_parity` (P odd); proof irrelevance for the `Nonsingular` component",
    "same_xy": "`cases` on `Affine.Point`; proof irrelevance for the `Nonsingular` component",
    "aff_on_curve": "`Secp.eqn_iff` (SecpB); definitions of `aff`, `affx`, `affy`, `Secp.mkPt`",
    "issq_of_sq": "definition of `IsSquare`",
    "fofint_eq": "`ZMod.natCast_zmod_val`",
    "bits_total": "`bitsumf_eq : bitsumf v n = v % 2 ^ n` (induction, `Finset.sum_range_succ`, `Int.ediv_ediv_of_nonneg`, `Int.emod_def`); "
                  "`Int.emod_eq_of_lt`",
    "add_neg_cancel": "`add_neg_cancel_right`",
    "ninv_mul": "`inv_mul_cancel₀`; " + PRIME_N,
    "smul_gzero": "`zsmul_zero` (Mathlib; `smul_zero` for the `ℤ`-action of an additive group)",
}
# lemmas the contract files tag `{lean: ASSUMED ...}`: intentionally without a theorem (and never `ok` in the stamp).
# Currently none (`iso_hom_chord` was the only one; it is proved in SecpSMT3.lean).
ASSUMED = {
}
# lemmas that are proved here although the contract file may still carry the old `{lean: ASSUMED ...}` tag
STALE_TAG_OK = {"iso_hom_chord"}
LEANFILES = ["SecpSMT", "SecpSMT2", "SecpSMT3"]


def lemma_lines():
    out = []
    for f in CONTRACTS + client_files():
        with open(f, encoding="utf-8") as fh:
            for line in fh:
                m = re.match(r"\s*//@ lemma (\w+)\((.*?)\)\s*(\{[^}]*\})?\s*:\s*(.*)$", line)
                if m:
                    out.append((m.group(1), label(f), m.group(4).strip(), m.group(3) or ""))
    return out


def client_vocabulary():
    """(name, file) of every `//@ define` / `//@ const` / `//@ declare` line of the lemma programs"""
    out = []
    for f in client_files():
        with open(f, encoding="utf-8") as fh:
            for line in fh:
                m = re.match(r"\s*//@ (define|const|declare) (\w+)", line)
                if m:
                    out.append((m.group(2), label(f)))
    return out


def vocabulary_defs():
    """names defined (`def` / `abbrev`, possibly `noncomputable`) in SecpSMT.lean before section 3"""
    head = read("SecpSMT").split("## 3. The lemmas", 1)[0]
    return set(re.findall(r"^(?:noncomputable )?(?:def|abbrev) (\w+)\b", head, re.M))


def read(mod):
    return open(os.path.join(root, "Secp", mod + ".lean"), encoding="utf-8").read()


def statements():
    """theorem name -> (one-line statement, module)"""
    st = {}
    dup = []
    for mod in LEANFILES:
        body = read(mod).split("## 3. The lemmas", 1)[1]
        for m in re.finditer(r"^theorem (\w+)\b(.*?):=", body, re.M | re.S):
            if m.group(1) in st:
                dup.append(m.group(1))
            st[m.group(1)] = (re.sub(r"\s+", " ", "theorem " + m.group(1) + m.group(2)).strip(), mod)
    return st, dup


def assumed_statements():
    """name -> the `def <name>_statement ... : Prop := ...` line of SecpSMT.lean"""
    out = {}
    for m in re.finditer(r"^def (\w+)_statement\b.*$", read("SecpSMT"), re.M):
        out[m.group(1)] = m.group(0).strip()
    return out


def shared_mismatches():
    """lines of the SHARED block of SecpSMT2.lean that are not verbatim lines of SecpSMT.lean"""
    s2 = read("SecpSMT2")
    block = s2.split("-- BEGIN SHARED", 1)[1].split("-- END SHARED", 1)[0]
    lines1 = set(read("SecpSMT").split("\n"))
    return [l for l in block.split("\n") if l.strip() and l not in lines1]


def main():
    check_only = "--check" in sys.argv
    lem = lemma_lines()
    st, dup = statements()
    ast = assumed_statements()
    build = open(os.path.join(root, "build.sh"), encoding="utf-8").read()
    bad = 0
    for d in dup:
        print("theorem declared twice:", d); bad = 1
    for l in shared_mismatches():
        print("SecpSMT2.lean SHARED line is not a line of SecpSMT.lean:", l[:100]); bad = 1
    gfiles, grows, gnotes = gen_statements.generate()
    gex = {}
    for gen, text in gfiles.items():
        gpath = os.path.join(root, "Secp", gen + ".lean")
        if not os.path.exists(gpath) or open(gpath, encoding="utf-8").read() != text:
            print("Secp/%s.lean is missing or is not the current output of gen_statements.py (run it, or build.sh)" % gen); bad = 1
        gex.update(gen_statements.example_lines(gen)[0])
    for gname, gwhere, gen, gst, gerr in grows:
        if gst is None:
            print("lemma not translated by gen_statements.py: %s (%s): %s" % (gname, gwhere, gerr)); bad = 1
        elif gname not in gex:
            print("no generated `example` for lemma %s in Secp/GenSMT.lean / Secp/GenSMT2.lean" % gname); bad = 1
    vdefs = vocabulary_defs()
    for name, f in client_vocabulary():
        if name not in vdefs:
            print("no `def %s` in the vocabulary of SecpSMT.lean for the define/const/declare line of %s" % (name, f)); bad = 1
    seen = set()
    rows = []
    nthm = 0
    for name, f, body, tag in lem:
        if name in seen:
            print("duplicate lemma name", name); bad = 1
        seen.add(name)
        tagged = "ASSUMED" in tag
        if name in ASSUMED:
            if not tagged:
                print("allowlisted as ASSUMED but not tagged {lean: ASSUMED ...} in", f + ":", name); bad = 1
            if name in st:
                print("ASSUMED lemma has a theorem (remove it from the allowlist):", name); bad = 1
            if re.search(r"^SecpSMT\.%s \w+$" % re.escape(name), build, re.M):
                print("ASSUMED lemma must not be in build.sh THEOREMS:", name); bad = 1
            if not re.search(r"^ASSUMED=.*\bSecpSMT\.%s\b" % re.escape(name), build, re.M):
                print("ASSUMED lemma not in build.sh ASSUMED list:", name); bad = 1
            if name not in ast:
                print("no `def %s_statement` in SecpSMT.lean" % name); bad = 1
            rows.append("| `%s` (%s) | none (`SecpSMT.%s_statement` is only the statement) | `%s` | %s |"
                        % (name, f, name, ast.get(name, "?"), ASSUMED[name]))
            continue
        if tagged and name in st and name in STALE_TAG_OK:
            print("note: %s is still tagged {lean: ASSUMED ...} in %s but is proved (SecpSMT.%s in %s.lean); "
                  "the tag can be changed to {lean: SecpSMT.%s}" % (name, f, name, st[name][1], name))
        elif tagged:
            print("lemma tagged ASSUMED in %s but not in the ASSUMED allowlist of smt_table.py:" % f, name); bad = 1
        if name not in st:
            print("NO THEOREM for lemma", name, "(%s)" % f); bad = 1
            continue
        stmt, mod = st[name]
        nthm += 1
        if not re.search(r"^SecpSMT\.%s %s$" % (re.escape(name), mod), build, re.M):
            print("not in build.sh THEOREMS (as `SecpSMT.%s %s`):" % (name, mod), name); bad = 1
        if name not in RESTS:
            print("no RESTS entry:", name); bad = 1
        thm = "`SecpSMT.%s`" % name + ("" if mod == "SecpSMT" else " (`Secp/%s.lean`)" % mod)
        rows.append("| `%s` (%s) | %s | `%s` | %s |" % (name, f, thm, stmt, RESTS.get(name, "?")))
    for name in ASSUMED:
        if name not in seen:
            print("ASSUMED allowlist entry without a lemma line:", name); bad = 1
    print("%d lemma lines, %d with a theorem, %d with a generated example, %d assumed (intentionally unproved: %s)"
          % (len(lem), nthm, len([n for n, _, _, _ in lem if n in gex]), len(ASSUMED), ", ".join(sorted(ASSUMED)) or "none"))
    if not check_only:
        p = os.path.join(root, "README.md")
        s = open(p, encoding="utf-8").read()
        b, e = "<!-- BEGIN SMT LEMMAS (generated by scripts/smt_table.py) -->", "<!-- END SMT LEMMAS -->"
        i, j = s.index(b), s.index(e)
        table = "| SMT lemma (contract file) | Lean theorem | exact Lean statement | rests on |\n|---|---|---|---|\n" + "\n".join(rows) + "\n"
        s = s[: i + len(b)] + "\n" + table + s[j:]
        open(p, "w", encoding="utf-8").write(s)
    sys.exit(bad)


if __name__ == "__main__":
    main()
