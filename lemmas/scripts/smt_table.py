#!/usr/bin/env python3
"""SMT-lemma table of ../README.md and coverage check of Secp/SecpSMT.lean.

Reads the `//@ lemma name(params) {lean: ...}: body` lines of the three contract files (read-only), looks up
`theorem <name>` in section 3 of Secp/SecpSMT.lean, and
  * reports lemma lines without a theorem, theorems missing from build.sh's THEOREMS list, and theorems
    without an entry in RESTS below (exit status 1 if any),
  * rewrites the block between `<!-- BEGIN SMT LEMMAS -->` and `<!-- END SMT LEMMAS -->` of ../README.md
    (statement column = source text from `theorem` up to `:=`, whitespace collapsed).
Plain python3, no third-party modules.  usage: smt_table.py [--check]   (--check: do not rewrite README.md)
"""
import os
import re
import sys

here = os.path.dirname(os.path.abspath(__file__))
root = os.path.dirname(here)
CONTRACTS = ["/repo/internal/field/contracts_verif.go", "/repo/internal/scalar/contracts_verif.go",
             "/repo/contracts_verif.go"]

PRIME_P = "`Secp.prime_P`"
PRIME_N = "`Secp.prime_N`"
# name -> what the proof rests on (library theorem / Mathlib)
RESTS = {
    "glue_add": "`Gen.glue_add`: `ZMod.intCast_mod`, `ring`",
    "glue_sub": "`Gen.glue_sub`: `ZMod.intCast_mod`, `ring`",
    "glue_neg": "`Gen.glue_neg`: `ZMod.intCast_mod`, `ring`",
    "glue_mul": "`Secp.glue_mul` (G1) via `Gen.glue_mul`; `ZMod.intCast_eq_intCast_iff`; " + PRIME_P,
    "glue_to": "`Secp.glue_to` (G3) via `Gen.glue_to`; `hR2P` (R2P = R^2 mod P by `norm_num`); " + PRIME_P,
    "glue_from": "`Secp.glue_from` (G2) via `Gen.glue_from`; `ZMod.val_intCast`, `Int.emod_eq_of_lt`; " + PRIME_P,
    "glue_zero": "`Secp.glue_inj` (G4) at y = 0 via `Gen.glue_zero`; " + PRIME_P,
    "glue_inj": "`Secp.glue_inj` (G4) via `Gen.glue_inj`; `Int.emod_eq_of_lt`; " + PRIME_P,
    "fofint_mod": "`Gen.fofint_mod`: `ZMod.intCast_zmod_eq_zero_iff_dvd`",
    "fint_range": "`Gen.fint_range`: `ZMod.val_lt`",
    "fofint_fint": "`Gen.fofint_fint`: `ZMod.val_intCast`, `Int.emod_eq_of_lt`",
    "fofint_wide": "`Gen.fofint_wide`: `push_cast; ring`",
    "fermat_inv": "`Secp.fermat_inv` (F1) via `Gen.fermat_inv`; " + PRIME_P,
    "sqrt_ratio_one": "`Secp.sqrt_ratio_3mod4` (S1) at v = 1 (Z = c2 = 0, only the first conjunct is used); " + PRIME_P,
    "glue_add_n": "`Gen.glue_add`",
    "glue_sub_n": "`Gen.glue_sub`",
    "glue_mul_n": "`Secp.glue_mul` (G1) via `Gen.glue_mul`; " + PRIME_N,
    "glue_to_n": "`Secp.glue_to` (G3) via `Gen.glue_to`; `hR2N`; " + PRIME_N,
    "glue_from_n": "`Secp.glue_from` (G2) via `Gen.glue_from`; " + PRIME_N,
    "glue_zero_n": "`Secp.glue_inj` (G4) via `Gen.glue_zero`; " + PRIME_N,
    "glue_inj_n": "`Secp.glue_inj` (G4) via `Gen.glue_inj`; " + PRIME_N,
    "nofint_mod": "`Gen.fofint_mod`",
    "nint_range": "`Gen.fint_range`",
    "nofint_fint": "`Gen.fofint_fint`",
    "nofint_wide": "`Gen.fofint_wide`",
    "fermat_inv_n": "`Secp.fermat_inv` (F1) via `Gen.fermat_inv`; " + PRIME_N,
    "rcb_add": "`Secp.rcb_add` (E1); `Secp.hypP` (N1); " + PRIME_P,
    "rcb_dbl": "`Secp.rcb_dbl` (E2); `Secp.hypP`; " + PRIME_P,
    "pt_neg": "`Secp.pt_neg` (E4); `Secp.hypP`; " + PRIME_P,
    "pt_identity_iff": "`Secp.pt_identity_iff` (E4); `Secp.hypP`; " + PRIME_P,
    "pt_eq_iff": "`Secp.pt_eq_iff` (E3); `Secp.hypP`; " + PRIME_P,
    "gneg_zero": "`neg_zero`",
    "valid_identity": "`Secp.pt_zero` (SecpD); `ring`",
    "bit_def": "`rfl` (definition of `bit`)",
    "bit_limb": "`Int.ediv_ediv_of_nonneg`, `Int.add_mul_ediv_left`, `Int.ediv_eq_zero_of_lt`, `Int.add_mul_emod_self_right`",
    "hi_step": "`Int.ediv_ediv_of_nonneg`, `omega`",
    "hi_top": "`Int.ediv_eq_zero_of_lt`",
    "hi_zero": "`simp` (`Int.ediv_one`)",
    "smul_add": "`add_smul`",
    "smul_zero": "`zero_smul`",
    "smul_one": "`one_smul`",
    "pt_of_affine": "`Secp.valid_of_affine`, `Secp.pt_of_affine` (E4); `Secp.hypP`; " + PRIME_P,
    "aff_coords": "`Secp.pt_aff`, `Secp.valid_aff` (SecpD); `div_eq_inv_mul`; " + PRIME_P,
    "aff_of": "`Secp.mkPt_ne_zero` (SecpE); definitions of `aff`, `affx`, `affy`; " + PRIME_P,
    "neg_parity": "`ZMod.neg_val`, `ZMod.val_lt`, P odd, `omega`",
    "fneg_sq": "`neg_mul_neg`",
    "poly_nonzero": "`Secp.Hyp.nocube` of `Secp.hypP` (N1); " + PRIME_P,
    "sq_zero": "`mul_self_eq_zero`",
    "firstnz_step": "definition of `firstnz` (`Nat.find`); `Nat.find_eq_zero`, `Nat.find_eq_iff`, `Nat.find_min`",
}


def lemma_lines():
    out = []
    for f in CONTRACTS:
        with open(f, encoding="utf-8") as fh:
            for line in fh:
                m = re.match(r"\s*//@ lemma (\w+)\((.*?)\)\s*(\{[^}]*\})?\s*:\s*(.*)$", line)
                if m:
                    out.append((m.group(1), os.path.relpath(f, "/repo"), m.group(4).strip()))
    return out


def statements():
    src = open(os.path.join(root, "Secp", "SecpSMT.lean"), encoding="utf-8").read()
    body = src.split("## 3. The lemmas", 1)[1]
    st = {}
    for m in re.finditer(r"^theorem (\w+)\b(.*?):=", body, re.M | re.S):
        st[m.group(1)] = re.sub(r"\s+", " ", "theorem " + m.group(1) + m.group(2)).strip()
    return st


def main():
    check_only = "--check" in sys.argv
    lem = lemma_lines()
    st = statements()
    build = open(os.path.join(root, "build.sh"), encoding="utf-8").read()
    bad = 0
    seen = set()
    rows = []
    for name, f, body in lem:
        if name in seen:
            print("duplicate lemma name", name); bad = 1
        seen.add(name)
        if name not in st:
            print("NO THEOREM for lemma", name, "(%s)" % f); bad = 1
            continue
        if not re.search(r"^SecpSMT\.%s SecpSMT$" % re.escape(name), build, re.M):
            print("not in build.sh THEOREMS:", name); bad = 1
        if name not in RESTS:
            print("no RESTS entry:", name); bad = 1
        rows.append("| `%s` (%s) | `SecpSMT.%s` | `%s` | %s |" % (name, f, name, st[name], RESTS.get(name, "?")))
    print("%d lemma lines, %d with a theorem" % (len(lem), len(rows)))
    if not check_only:
        p = os.path.join(root, "README.md")
        s = open(p, encoding="utf-8").read()
        b, e = "<!-- BEGIN SMT LEMMAS (generated by scripts/smt_table.py) -->", "<!-- END SMT LEMMAS -->"
        i, j = s.index(b), s.index(e)
        table = "| SMT lemma (contract file) | Lean theorem | exact Lean statement | rests on |\n|---|---|---|---|\n" + "\n".join(rows) + "\n"
        s = s[: i + len(b)] + "\n" + table + s[j:]
        open(p, "w", encoding="utf-8").write(s)
    sys.exit(bad)


if __name__ == "__main__":
    main()
