import sys
from sympy import factorint, primitive_root, isprime
P=2**256-2**32-977
N=0xfffffffffffffffffffffffffffffffebaaedce6af48a03bbfd25e8cd0364141
SMALL=100000
nodes={}
def visit(p):
    if p in nodes or p<SMALL: return
    f=factorint(p-1)
    nodes[p]=f
    for q in f: visit(int(q))
visit(P); visit(N)
out=["import Mathlib.NumberTheory.LucasPrimality","import Mathlib.Tactic.ReduceModChar","import Mathlib.Tactic","",
"namespace Secp","",
"theorem lucas_of_factors (p : ℕ) (a : ZMod p) (fs : List ℕ) (hprod : p - 1 = fs.prod)",
"    (hpr : ∀ f ∈ fs, f.Prime) (ha : a^(p-1) = 1) (hq : ∀ f ∈ fs, a^((p-1)/f) ≠ 1) : p.Prime := by",
"  refine lucas_primality p a ha (fun q hqp hdvd => ?_)",
"  rw [hprod] at hdvd",
"  obtain ⟨f, hf, hqf⟩ := (Prime.dvd_prod_iff hqp.prime).1 hdvd",
"  have : q = f := (Nat.prime_dvd_prime_iff_eq hqp (hpr f hf)).1 hqf",
"  subst this",
"  exact hq q hf",""]
# order: children first
order=[]
def topo(p,seen=set()):
    if p in seen or p not in nodes: return
    seen.add(p)
    for q in nodes[p]: topo(int(q),seen)
    order.append(p)
topo(P); topo(N)
for p in order:
    f=nodes[p]
    fs=[int(q) for q in sorted(f)]          # distinct primes
    full=[]
    for q in sorted(f): full += [int(q)]*f[q]
    a=primitive_root(p)
    cases=" | ".join(["rfl"]*len(full))
    prs=[]
    for q in full:
        prs.append(f"prime_{q}" if q>=SMALL else "(by norm_num)")
    out.append(f"theorem prime_{p} : Nat.Prime {p} := by")
    out.append(f"  refine lucas_of_factors {p} {a} {full} (by norm_num) ?_ ?_ ?_")
    out.append(f"  · intro f hf")
    out.append(f"    simp only [List.mem_cons, List.mem_nil_iff, or_false] at hf")
    out.append(f"    rcases hf with {cases}")
    for pr in prs:
        out.append(f"    · exact {pr}")
    out.append(f"  · norm_num; reduce_mod_char")
    out.append(f"  · intro f hf")
    out.append(f"    simp only [List.mem_cons, List.mem_nil_iff, or_false] at hf")
    out.append(f"    rcases hf with {cases} <;> (norm_num; reduce_mod_char; decide)")
    out.append("")
out.append(f"/-- A1 -/\ntheorem prime_P : Nat.Prime {P} := prime_{P}")
out.append(f"theorem prime_N : Nat.Prime {N} := prime_{N}")
out.append("\nend Secp")
open('SecpPrime.lean','w').write("\n".join(out))
print(len(order),'lucas nodes')
