#!/usr/bin/env python3
"""Regenerate the key-theorem table of ../README.md from the Lean sources.

The signature column is cut out of Secp/<file> (from the `theorem` keyword up to, not including,
`:=` / `:= by` / `where`), with runs of whitespace collapsed to one blank so that it fits a table cell
(and `;` added after a `let` line, which is what the line break means).  The same statements are also
written verbatim, line breaks included, into the "Verbatim statements" section.
Plain python3, no third-party modules.  usage: readme_table.py   (rewrites ../README.md in place)
"""
import os
import re
import sys

here = os.path.dirname(os.path.abspath(__file__))
root = os.path.dirname(here)

# (id, qualified name, file, informal statement)
KEY = [
    ("E1", "Secp.rcb_add", "SecpD.lean",
     "RCB Algorithm 7 (complete addition, a=0, b3=21): for valid triples the result is valid and represents the Mathlib group sum; all cases (either operand O, P=Q, P=-Q, generic)"),
    ("E2", "Secp.rcb_dbl", "SecpE.lean",
     "RCB Algorithm 9 doubling polynomials: for a valid triple the result is valid and represents P+P"),
    ("E3", "Secp.pt_eq_iff", "SecpE.lean",
     "two valid triples represent the same point iff X1 Z2 = X2 Z1 and Y1 Z2 = Y2 Z1"),
    ("E4", "Secp.pt_neg", "SecpE.lean",
     "(X : -Y : Z) is valid and represents the negated point"),
    ("E4", "Secp.pt_identity_iff", "SecpE.lean",
     "a valid triple represents O iff Z = 0"),
    ("E4", "Secp.valid_of_affine", "SecpE.lean",
     "(x, y) on the curve gives the valid triple (x : y : 1)"),
    ("E4", "Secp.pt_of_affine", "SecpE.lean",
     "(x : y : 1) represents the affine point (x, y)"),
    ("E4", "Secp.pt_scale", "SecpD.lean",
     "scaling a triple by c != 0 does not change the represented point"),
    ("E4", "Secp.valid_scale", "SecpD.lean",
     "scaling a valid triple by c != 0 gives a valid triple"),
    ("E4", "Secp.valid_aff", "SecpD.lean",
     "a valid triple with Z != 0 has affine coordinates (X/Z, Y/Z) on the curve"),
    ("N1", "Secp.hypP", "SecpN.lean",
     "in ZMod P: 2 != 0, 3 != 0 and t^3 + 7 has no root (no 2-torsion), given only that P is prime"),
    ("G1", "Secp.glue_mul", "SecpG.lean",
     "Montgomery product: o R = a b + k m implies o Ri = (a Ri)(b Ri) mod m"),
    ("G2", "Secp.glue_from", "SecpG.lean",
     "from Montgomery form: o R = a + k m implies o = a Ri mod m"),
    ("G3", "Secp.glue_to", "SecpG.lean",
     "to Montgomery form: o R = a R2 + k m with R2 = R^2 mod m implies o Ri = a mod m"),
    ("G4", "Secp.glue_inj", "SecpG.lean",
     "x -> x Ri mod m is injective on residues"),
    ("S1", "Secp.sqrt_ratio_3mod4", "SecpS.lean",
     "RFC 9380 F.2.1.2 sqrt_ratio for p = 3 mod 4: flag tv3 = u iff u/v is a square; if set y1^2 v = u, else (y1 c2)^2 v = Z u"),
    ("F1", "Secp.fermat_inv", "SecpF.lean",
     "x^(p-2) = x^-1 in ZMod p for prime p > 2 (0 for 0)"),
    ("F1", "Secp.pow_chain_mul", "SecpF.lean",
     "power-chain law x^a x^b = x^(a+b)"),
    ("F1", "Secp.pow_chain_sq", "SecpF.lean",
     "power-chain law (x^a)^2 = x^(2a)"),
    ("A1", "Secp.prime_P", "SecpPrime.lean",
     "the field characteristic P = 2^256 - 2^32 - 977 is prime"),
    ("A1", "Secp.prime_N", "SecpPrime.lean",
     "the group order N is prime"),
    ("M2", "Secp.iso_on_curve", "SecpI.lean",
     "RFC 9380 E.1 3-isogeny maps E' into E (denominators cleared)"),
    ("M1", "Secp.sswu_on_curve", "SecpM.lean",
     "RFC 9380 F.2 straight-line SSWU output satisfies y^2 = x^3 + A'x + B' for every u, including the exceptional branch tv2 = 0"),
]


def signature(path, short):
    lines = open(path, encoding="utf-8").read().split("\n")
    start = next(i for i, l in enumerate(lines) if re.match(rf"^(theorem|lemma) {re.escape(short)}\b", l))
    acc = []
    for n, l in enumerate(lines[start:]):
        m = re.search(r"\s*:=\s*by\b", l)
        if m:
            acc.append(l[:m.start()])
            break
        if re.search(r":=\s*$", l):
            acc.append(re.sub(r"\s*:=\s*$", "", l))
            break
        if re.search(r"\swhere\s*$", l):
            acc.append(re.sub(r"\s+where\s*$", "", l))
            break
        if n == 0 and " := " in l:
            acc.append(l[:l.rindex(" := ")])
            break
        acc.append(l)
    else:
        raise SystemExit(f"no end of statement for {short}")
    # a `let x := v` line is terminated by its line break; on one line Lean's equivalent is `let x := v;`
    one = [a + ";" if a.strip().startswith("let ") and not a.rstrip().endswith(";") else a for a in acc]
    return re.sub(r"\s+", " ", " ".join(one)).strip(), "\n".join(acc)


def ambient(path):
    vs = [l.strip() for l in open(path, encoding="utf-8").read().split("\n") if l.startswith("variable ")]
    return " ".join(f"`{v}`" for v in vs) if vs else "-"


rows = ["| id | theorem (fully qualified) | file | informal statement | ambient `variable`s | exact Lean statement |",
        "|---|---|---|---|---|---|"]
verb = []
for ident, name, fn, informal in KEY:
    path = os.path.join(root, "Secp", fn)
    sig, raw = signature(path, name.split(".", 1)[1])
    verb.append(f"-- {ident}  {name}  ({fn}; {ambient(path).replace('`', '')})\n{raw}\n")
    assert "|" not in sig and "`" not in sig, name
    rows.append(f"| {ident} | `{name}` | `Secp/{fn}` | {informal} | {ambient(path)} | `{sig}` |")
table = "\n".join(rows)

readme = os.path.join(root, "README.md")
s = open(readme, encoding="utf-8").read()
b, e = "<!-- BEGIN KEY THEOREMS (generated by scripts/readme_table.py) -->", "<!-- END KEY THEOREMS -->"
i, j = s.index(b), s.index(e)
s = s[:i + len(b)] + "\n" + table + "\n" + s[j:]
b, e = "<!-- BEGIN VERBATIM STATEMENTS (generated by scripts/readme_table.py) -->", "<!-- END VERBATIM STATEMENTS -->"
i, j = s.index(b), s.index(e)
s = s[:i + len(b)] + "\n```lean\n" + "\n".join(verb) + "```\n" + s[j:]
open(readme, "w", encoding="utf-8").write(s)
print(len(KEY), "rows")
