import SecpD
open WeierstrassCurve
set_option linter.unusedSectionVars false
namespace Secp
variable {F : Type*} [Field F] [DecidableEq F]

/-! ### E2: RCB Algorithm 9 (doubling, a = 0, b3 = 21) -/
def dblX (X Y Z : F) : F := 2*X*Y*(Y^2 - 63*Z^2)
def dblY (X Y Z : F) : F := (Y^2 - 63*Z^2)*(Y^2 + 21*Z^2) + 168*Y^2*Z^2
def dblZ (X Y Z : F) : F := 8*Y^3*Z

theorem rcb_dbl (h : Hyp F) {X Y Z : F} (v : Valid X Y Z) :
    Valid (dblX X Y Z) (dblY X Y Z) (dblZ X Y Z) ∧
    pt h (dblX X Y Z) (dblY X Y Z) (dblZ X Y Z) = pt h X Y Z + pt h X Y Z := by
  have c := v.1
  have a1 : dblX X Y Z = rcbX X Y Z X Y Z := by unfold dblX rcbX; ring
  have a2 : dblY X Y Z = rcbY X Y Z X Y Z := by
    unfold dblY rcbY; linear_combination (126*Z) * c
  have a3 : dblZ X Y Z = rcbZ X Y Z X Y Z := by
    unfold dblZ rcbZ; linear_combination (6*Y) * c
  rw [a1, a2, a3]
  exact rcb_add h v v

/-! ### E3: projective equality test -/
lemma mkPt_inj (h : Hyp F) {x y x' y' : F} (e : y^2 = x^3+7) (e' : y'^2 = x'^3+7) :
    mkPt h x y e = mkPt h x' y' e' ↔ x = x' ∧ y = y' := by
  unfold mkPt
  constructor
  · intro hh; injection hh with a b; exact ⟨a, b⟩
  · rintro ⟨rfl, rfl⟩; rfl

lemma mkPt_ne_zero (h : Hyp F) {x y : F} (e : y^2 = x^3+7) : mkPt h x y e ≠ 0 := by
  unfold mkPt; exact Affine.Point.some_ne_zero _

theorem pt_eq_iff (h : Hyp F) {X1 Y1 Z1 X2 Y2 Z2 : F} (v1 : Valid X1 Y1 Z1) (v2 : Valid X2 Y2 Z2) :
    pt h X1 Y1 Z1 = pt h X2 Y2 Z2 ↔ (X1*Z2 = X2*Z1 ∧ Y1*Z2 = Y2*Z1) := by
  by_cases hz1 : Z1 = 0 <;> by_cases hz2 : Z2 = 0
  · obtain ⟨hx1, _⟩ := valid_inf v1 hz1
    obtain ⟨hx2, _⟩ := valid_inf v2 hz2
    subst hz1 hz2 hx1 hx2
    simp [pt_zero]
  · obtain ⟨hx1, hy1⟩ := valid_inf v1 hz1
    subst hz1 hx1
    rw [pt_zero, pt_aff h hz2 (valid_aff v2 hz2)]
    constructor
    · intro hh; exact absurd hh.symm (mkPt_ne_zero h _)
    · rintro ⟨_, b⟩
      have : Y1 * Z2 = 0 := by linear_combination b
      rcases mul_eq_zero.1 this with q | q
      · exact absurd q hy1
      · exact absurd q hz2
  · obtain ⟨hx2, hy2⟩ := valid_inf v2 hz2
    subst hz2 hx2
    rw [pt_zero, pt_aff h hz1 (valid_aff v1 hz1)]
    constructor
    · intro hh; exact absurd hh (mkPt_ne_zero h _)
    · rintro ⟨_, b⟩
      have : Y2 * Z1 = 0 := by linear_combination -b
      rcases mul_eq_zero.1 this with q | q
      · exact absurd q hy2
      · exact absurd q hz1
  · rw [pt_aff h hz1 (valid_aff v1 hz1), pt_aff h hz2 (valid_aff v2 hz2), mkPt_inj]
    constructor
    · rintro ⟨a, b⟩
      field_simp at a b
      exact ⟨by linear_combination a, by linear_combination b⟩
    · rintro ⟨a, b⟩
      constructor <;> field_simp <;> [linear_combination a; linear_combination b]

/-! ### E4: negation, identity, affine coordinates -/
theorem pt_neg (h : Hyp F) {X Y Z : F} (v : Valid X Y Z) :
    Valid X (-Y) Z ∧ pt h X (-Y) Z = - pt h X Y Z := by
  have v' : Valid X (-Y) Z := by
    refine ⟨by linear_combination v.1, ?_⟩
    rcases v.2 with a | a | a
    · exact Or.inl a
    · exact Or.inr (Or.inl (neg_ne_zero.2 a))
    · exact Or.inr (Or.inr a)
  refine ⟨v', ?_⟩
  by_cases hz : Z = 0
  · subst hz; simp [pt_zero]
  · rw [pt_aff h hz (valid_aff v hz), pt_aff h hz (valid_aff v' hz)]
    unfold mkPt
    rw [Affine.Point.neg_some]
    congr 1
    rw [negY_eq]; ring

theorem pt_identity_iff (h : Hyp F) {X Y Z : F} (v : Valid X Y Z) : pt h X Y Z = 0 ↔ Z = 0 := by
  constructor
  · intro hh
    by_contra hz
    rw [pt_aff h hz (valid_aff v hz)] at hh
    exact mkPt_ne_zero h _ hh
  · rintro rfl; exact pt_zero h _ _

theorem valid_of_affine (x y : F) (e : y^2 = x^3+7) : Valid x y 1 :=
  ⟨by linear_combination e, Or.inr (Or.inr one_ne_zero)⟩

theorem pt_of_affine (h : Hyp F) (x y : F) (e : y^2 = x^3+7) : pt h x y 1 = mkPt h x y (by simpa using e) := by
  rw [pt_aff h one_ne_zero (by simpa using e)]
  exact mkPt_congr h _ _ (by simp) (by simp)

end Secp
