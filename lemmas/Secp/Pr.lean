import Mathlib.NumberTheory.LucasPrimality
import Mathlib.Tactic.ReduceModChar
import Mathlib.Tactic

theorem lucas_of_factors (p : ℕ) (a : ZMod p) (fs : List ℕ) (hprod : p - 1 = fs.prod)
    (hpr : ∀ f ∈ fs, f.Prime) (ha : a^(p-1) = 1) (hq : ∀ f ∈ fs, a^((p-1)/f) ≠ 1) : p.Prime := by
  refine lucas_primality p a ha (fun q hqp hdvd => ?_)
  rw [hprod] at hdvd
  obtain ⟨f, hf, hqf⟩ := (Prime.dvd_prod_iff hqp.prime).1 hdvd
  have : q = f := (Nat.prime_dvd_prime_iff_eq hqp (hpr f hf)).1 hqf
  subst this
  exact hq q hf

abbrev Q1 : ℕ := 205115282021455665897114700593932402728804164701536103180137503955397371
abbrev P : ℕ := 115792089237316195423570985008687907853269984665640564039457584007908834671663

theorem prime_13441 : Nat.Prime 13441 := by norm_num

theorem prime_P (hQ : Nat.Prime Q1) : Nat.Prime P := by
  refine lucas_of_factors P 3 [2, 3, 7, 13441, Q1] (by norm_num [P, Q1]) ?_ ?_ ?_
  · intro f hf
    simp only [List.mem_cons, List.mem_nil_iff, or_false] at hf
    rcases hf with rfl | rfl | rfl | rfl | rfl
    · norm_num
    · norm_num
    · norm_num
    · exact prime_13441
    · exact hQ
  · norm_num [P]; reduce_mod_char
  · intro f hf
    simp only [List.mem_cons, List.mem_nil_iff, or_false] at hf
    rcases hf with rfl | rfl | rfl | rfl | rfl <;> (norm_num [P, Q1]; try (reduce_mod_char; try decide))
