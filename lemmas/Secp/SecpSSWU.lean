import SecpSMT

/-!
# RFC 9380 Appendix F.2 (straight-line simplified SWU) computes the map of RFC 9380 section 6.6.2

The verification engine proves that the Go function `SSWU` computes the straight-line program of RFC 9380 F.2
(with `sqrt_ratio_3mod4` of F.2.1.2), i.e. `SecpSMT.sswu_x` / `SecpSMT.sswu_y` of `SecpSMT.lean`, section 1, over
`F = ZMod P` with `A = F(AC)`, `B = F(BC)`, `Z = F(ZC) = -11`.  This file proves that this program computes the map
that RFC 9380 *defines in prose* in section 6.6.2 ("Simplified SWU method"):

    1. tv1 = inv0(Z^2 * u^4 + Z * u^2)
    2.  x1 = (-B / A) * (1 + tv1)
    3.  If tv1 == 0, set x1 = B / (Z * A)
    4. gx1 = x1^3 + A * x1 + B
    5.  x2 = Z * u^2 * x1
    6. gx2 = x2^3 + A * x2 + B
    7.  If is_square(gx1), set x = x1 and y = sqrt(gx1)
    8.  Else set x = x2 and y = sqrt(gx2)
    9.  If sgn0(u) != sgn0(y), set y = -y
    10. return (x, y)

`inv0(0) = 0` is Lean's `⁻¹` on a field; `sqrt(v)` is *some* square root of `v` (RFC 9380 section 4); here it is a
parameter `s` with `s^2 = v`, and the results hold for every such `s`.

Section 1 transcribes the prose (`prose_tv1 .. prose_gx2`, `prose_x`, `prose_gx`, `prose_y`), section 2 is the algebra
over an arbitrary field, section 3 the four closed facts about the constants, section 4 the theorems:

* `sswu_computes_prose u`: (a) `sswu_x u = if IsSquare gx1 then x1 else x2`, (b) `(sswu_y u)^2 = if IsSquare gx1 then gx1 else gx2`,
  (c) `sswu_y u = 0 ∨ sgn0 (sswu_y u) = sgn0 u`, (d) `onE3 (sswu_x u) (sswu_y u)`;
* `prose_gx_isSquare u`: the value whose root steps 7/8 take is a square (so the prose is well defined);
* `prose_y_indep`: step 9 makes the result independent of the root chosen in steps 7/8;
* `sswu_eq_prose u s`: for every root `s` of the selected `gx`, `(sswu_x u, sswu_y u) = (prose_x u, prose_y u s)`.

This file imports `SecpSMT` (the `SecpN` side of the `Secp.P` clash), so it cannot cite `Secp.sswu_on_curve` (`SecpM`) or
`SecpSMT.sswu_on_curve` (`SecpSMT2`); it does not need them: (d) is a *consequence* of (a) and (b), because
`gx = x^3 + A x + B` by definition.  The four closed facts of `SecpM` that the proof needs (`c2_sq`, `exc_sq`, `A_ne`, `Zc_ne`)
are re-proved here for the contract constants `C2`, `ZC`, `AC`, `BC` as divisibility statements in `ℤ` (`norm_num`).
-/

set_option linter.unusedSectionVars false
set_option linter.unusedVariables false

namespace SecpSMT

/-! ## 1. The prose of RFC 9380 section 6.6.2, step by step (`Z = F(ZC)`, `A = F(AC)`, `B = F(BC)`) -/

/-- step 1: `tv1 = inv0(Z^2 * u^4 + Z * u^2)`.  (Not the `tv1` of F.2, which is `sswu_tv1 u = Z * u^2`.) -/
def prose_tv1 (u : F) : F := (((ZC : ℤ) : F)^2 * u^4 + ((ZC : ℤ) : F) * u^2)⁻¹
/-- steps 2 and 3: `x1 = (-B / A) * (1 + tv1)`; `If tv1 == 0, set x1 = B / (Z * A)` -/
def prose_x1 (u : F) : F :=
  if prose_tv1 u = 0 then ((BC : ℤ) : F) / (((ZC : ℤ) : F) * ((AC : ℤ) : F))
  else (-((BC : ℤ) : F) / ((AC : ℤ) : F)) * (1 + prose_tv1 u)
/-- step 4: `gx1 = x1^3 + A * x1 + B` -/
def prose_gx1 (u : F) : F := (prose_x1 u)^3 + ((AC : ℤ) : F) * prose_x1 u + ((BC : ℤ) : F)
/-- step 5: `x2 = Z * u^2 * x1` -/
def prose_x2 (u : F) : F := ((ZC : ℤ) : F) * u^2 * prose_x1 u
/-- step 6: `gx2 = x2^3 + A * x2 + B` -/
def prose_gx2 (u : F) : F := (prose_x2 u)^3 + ((AC : ℤ) : F) * prose_x2 u + ((BC : ℤ) : F)
/-- steps 7 and 8, the x-coordinate: `If is_square(gx1), set x = x1 ... Else set x = x2` -/
def prose_x (u : F) : F := if IsSquare (prose_gx1 u) then prose_x1 u else prose_x2 u
/-- steps 7 and 8, the value whose square root is taken: `y = sqrt(gx1)` resp. `y = sqrt(gx2)` -/
def prose_gx (u : F) : F := if IsSquare (prose_gx1 u) then prose_gx1 u else prose_gx2 u
/-- step 9 applied to a root `s` chosen in step 7/8: `If sgn0(u) != sgn0(y), set y = -y` -/
def prose_y (u s : F) : F := if sgn0 u ≠ sgn0 s then -s else s

/-! ## 2. Algebra over an arbitrary field -/

namespace SSWU
variable {K : Type*} [Field K]

/-- `x1 = x1n / xd` in the generic case `tv2 ≠ 0`: `(-B/A)(1 + 1/tv2) = B (tv2 + 1) / (-(A tv2))` -/
theorem x1_generic (A B t2 : K) (hA : A ≠ 0) (h2 : t2 ≠ 0) :
    (-B / A) * (1 + t2⁻¹) = B * (t2 + 1) * (A * -t2)⁻¹ := by
  field_simp

/-- `gx1 = gxn / gxd` -/
theorem gx1_ratio (A B t3 t4 : K) (h4 : t4 ≠ 0) :
    (t3 * t4⁻¹)^3 + A * (t3 * t4⁻¹) + B
      = ((t3 * t3 + A * (t4 * t4)) * t3 + B * (t4 * t4 * t4)) / (t4 * t4 * t4) := by
  field_simp

/-- the SWU identity behind the non-square branch: with `w^2 gxd = Z gxn` (what `sqrt_ratio` returns for a non-square
ratio), `y = tv1 u w` satisfies `y^2 = g(tv1 x1)`.  `id1`: `tv1^3 gxn = g(tv1 x1) xd^3` (this is where
`x1 = (-B/A)(1 + 1/(tv1^2 + tv1))` is used), `id2`: `(tv1 u)^2 Z = tv1^3`.  Same computation as in `Secp.sswu_on_curve`. -/
theorem nonsq_branch (A B Z u t1 t2 t3 t4 gxn w : K)
    (h1 : t1 = Z * u^2) (h2 : t2 = t1^2 + t1) (h3 : t3 = B * (t2 + 1)) (h4 : t4 = -(A * t2)) (ht4 : t4 ≠ 0)
    (hn : gxn = (t3^2 + A * t4^2) * t3 + B * t4^3) (hw : w^2 * t4^3 = Z * gxn) :
    (t1 * u * w)^2 = (t1 * (t3 * t4⁻¹))^3 + A * (t1 * (t3 * t4⁻¹)) + B := by
  have id1 : t1^3 * gxn = (t1 * t3)^3 + A * (t1 * t3) * t4^2 + B * t4^3 := by
    rw [hn, h4, h3, h2]; ring
  have id2 : (t1 * u)^2 * Z = t1^3 := by rw [h1]; ring
  have key : (t1 * u * w)^2 * t4^3 = (t1 * t3)^3 + A * (t1 * t3) * t4^2 + B * t4^3 := by
    linear_combination ((t1 * u)^2) * hw + gxn * id2 + id1
  field_simp
  linear_combination key

/-- two values with the same square differ by a sign -/
theorem eq_or_neg_of_sq (a b : K) (h : a^2 = b^2) : a = b ∨ a = -b := by
  have : (a - b) * (a + b) = 0 := by linear_combination h
  rcases mul_eq_zero.1 this with e | e
  · exact Or.inl (sub_eq_zero.1 e)
  · exact Or.inr (eq_neg_of_add_eq_zero_left e)

end SSWU

/-! ## 3. The closed facts about the constants (`SecpM.lean` has them for `Secp.c2`, `Secp.Zc`, `Secp.A'`, `Secp.B'`) -/

namespace SSWU

theorem cast_zero_of_dvd {a : ℤ} (h : (P : ℤ) ∣ a) : ((a : ℤ) : F) = 0 :=
  (ZMod.intCast_zmod_eq_zero_iff_dvd _ _).2 h

theorem P_mod4 : P % 4 = 3 := by norm_num [P, Secp.P]

/-- `c2^2 = -Z` (RFC 9380 F.2.1.2: `c2 = sqrt(-Z)`) -/
theorem C2_sq : (((C2 : ℤ) : F))^2 = -((ZC : ℤ) : F) := by
  have h : (((C2^2 + ZC : ℤ)) : F) = 0 := cast_zero_of_dvd (by norm_num [C2, ZC, P, Secp.P])
  push_cast at h; linear_combination h

theorem AC_ne : ((AC : ℤ) : F) ≠ 0 := by
  intro h
  have := (ZMod.intCast_zmod_eq_zero_iff_dvd AC P).1 h
  norm_num [AC, P, Secp.P] at this

theorem ZC_ne : ((ZC : ℤ) : F) ≠ 0 := by
  intro h
  have := (ZMod.intCast_zmod_eq_zero_iff_dvd ZC P).1 h
  norm_num [ZC, P, Secp.P] at this

/-- a square root of `g(B / (Z A))`, the value of `gx1` in the exceptional case (`Secp.rexc` of `SecpM.lean`) -/
def REXC : ℤ := 18364601681750688294657986852423245333803871022936718218329797708983130841480

/-- the exceptional `gx1 = g(B/(Z A))` is a square: `REXC^2 (A Z)^3 = (B^2 + A (A Z)^2) B + B (A Z)^3` -/
theorem exc_sq : (((REXC : ℤ) : F))^2 * (((AC : ℤ) : F) * ((ZC : ℤ) : F))^3
    = (((BC : ℤ) : F)^2 + ((AC : ℤ) : F) * (((AC : ℤ) : F) * ((ZC : ℤ) : F))^2) * ((BC : ℤ) : F)
      + ((BC : ℤ) : F) * (((AC : ℤ) : F) * ((ZC : ℤ) : F))^3 := by
  have h : (((REXC^2 * (AC * ZC)^3 - ((BC^2 + AC * (AC * ZC)^2) * BC + BC * (AC * ZC)^3) : ℤ)) : F) = 0 :=
    cast_zero_of_dvd (by norm_num [REXC, AC, BC, ZC, P, Secp.P])
  push_cast at h; linear_combination h

end SSWU

/-! ## 4. F.2 versus the prose -/

open SSWU

/-- `xd = tv4` of F.2 is never zero (`CMOV(Z, -tv2, tv2 != 0)`, `A ≠ 0`, `Z ≠ 0`) -/
theorem sswu_tv4_ne (u : F) : sswu_tv4 u ≠ 0 := by
  unfold sswu_tv4
  refine mul_ne_zero AC_ne ?_
  split_ifs with h0
  · exact ZC_ne
  · rw [Int.cast_zero] at h0; exact neg_ne_zero.2 h0

/-- the argument of `inv0` in step 1 is `tv2` of F.2 -/
theorem prose_tv1_eq (u : F) : prose_tv1 u = (sswu_tv2 u)⁻¹ := by
  unfold prose_tv1 sswu_tv2 sswu_tv1; congr 1; ring

/-- steps 1-3 against F.2 steps 1-8: `x1 = x1n / xd = tv3 / tv4`, in both the generic and the exceptional case -/
theorem prose_x1_eq (u : F) : prose_x1 u = sswu_tv3 u * (sswu_tv4 u)⁻¹ := by
  unfold prose_x1
  rw [prose_tv1_eq]
  unfold sswu_tv3 sswu_tv4
  rw [Int.cast_zero, Int.cast_one]
  by_cases h0 : sswu_tv2 u = 0
  · rw [if_pos h0, h0, inv_zero, if_pos rfl, zero_add, mul_one, div_eq_mul_inv, mul_comm ((ZC : ℤ) : F)]
  · rw [if_neg h0, if_neg (inv_ne_zero h0)]
    exact x1_generic _ _ _ AC_ne h0

/-- step 4 against F.2 steps 9-15: `gx1 = gxn / gxd` -/
theorem prose_gx1_eq (u : F) : prose_gx1 u = sswu_gxn u / sswu_gxd u := by
  unfold prose_gx1 sswu_gxn sswu_gxd
  rw [prose_x1_eq]
  exact gx1_ratio _ _ _ _ (sswu_tv4_ne u)

/-- step 5 against F.2 step 17: `x2 = tv1 * x1n / xd` -/
theorem prose_x2_eq (u : F) : prose_x2 u = sswu_tv1 u * (sswu_tv3 u * (sswu_tv4 u)⁻¹) := by
  unfold prose_x2 sswu_tv1
  rw [prose_x1_eq]; ring

theorem sswu_gxd_ne (u : F) : sswu_gxd u ≠ 0 := by
  unfold sswu_gxd
  exact mul_ne_zero (mul_ne_zero (sswu_tv4_ne u) (sswu_tv4_ne u)) (sswu_tv4_ne u)

/-- `sqrt_ratio_3mod4` (S1) at `(gxn, gxd)`, in the vocabulary of the contract:
the flag is `is_square(gx1)`; if set `y1^2 gxd = gxn`, else `(y1 c2)^2 gxd = Z gxn`. -/
theorem sswu_sqrt_ratio (u : F) :
    (sswu_sq u ↔ IsSquare (prose_gx1 u)) ∧
    (sswu_sq u → (sswu_y1 u)^2 * sswu_gxd u = sswu_gxn u) ∧
    (¬ sswu_sq u → (sswu_y1 u)^2 * sswu_gxd u = ((ZC : ℤ) : F) * sswu_gxn u) := by
  obtain ⟨s1, s2, s3⟩ := Secp.sqrt_ratio_3mod4 (p := P) P_mod4 (sswu_gxn u) (sswu_gxd u) ((ZC : ℤ) : F)
    ((C2 : ℤ) : F) (sswu_gxd_ne u) C2_sq
  have hy1 : sr_y1 (sswu_gxn u) (sswu_gxd u)
      = ((sswu_gxd u)^2 * (sswu_gxn u * sswu_gxd u))^((P - 3)/4) * (sswu_gxn u * sswu_gxd u) := by
    unfold sr_y1 sr_tv1 fpow; rw [sr_exp, pow_two]
  rw [← hy1] at s1 s2 s3
  have hc : sswu_sq u ↔ (sr_y1 (sswu_gxn u) (sswu_gxd u))^2 * sswu_gxd u = sswu_gxn u := by
    unfold sswu_sq sr_isqr; rw [pow_two]
  refine ⟨?_, ?_, ?_⟩
  · rw [prose_gx1_eq]; exact hc.trans s1
  · intro hq
    have e : sswu_y1 u = sr_y1 (sswu_gxn u) (sswu_gxd u) := by
      unfold sswu_y1 sr_y; exact if_pos hq
    rw [e]; exact hc.1 hq
  · intro hq
    have e : sswu_y1 u = sr_y1 (sswu_gxn u) (sswu_gxd u) * ((C2 : ℤ) : F) := by
      unfold sswu_y1 sr_y; exact if_neg hq
    rw [e]; exact s3 (fun h => hq (hc.2 h))

/-- the exceptional case of step 3 (`tv1 == 0`, i.e. `u = 0` or `Z u^2 = -1`): `gx1 = g(B/(Z A))` is a square,
so steps 7/8 select `x1`.  (F.2 relies on this: its `tv4 = CMOV(Z, -tv2, tv2 != 0)` only produces `x1`.) -/
theorem exc_isSquare (u : F) (h0 : sswu_tv2 u = 0) : IsSquare (prose_gx1 u) := by
  have e4 : sswu_tv4 u = ((AC : ℤ) : F) * ((ZC : ℤ) : F) := by
    unfold sswu_tv4; rw [Int.cast_zero, if_pos h0]
  have e3 : sswu_tv3 u = ((BC : ℤ) : F) := by
    unfold sswu_tv3; rw [h0, Int.cast_one]; ring
  refine ⟨((REXC : ℤ) : F), ?_⟩
  rw [prose_gx1_eq]
  unfold sswu_gxn sswu_gxd
  rw [e4, e3, div_eq_iff (mul_ne_zero (mul_ne_zero (mul_ne_zero AC_ne ZC_ne) (mul_ne_zero AC_ne ZC_ne))
    (mul_ne_zero AC_ne ZC_ne))]
  linear_combination -exc_sq

/-- **(a)**: the x-coordinate of F.2 is the x-coordinate of the prose -/
theorem sswu_x_eq_prose (u : F) : sswu_x u = prose_x u := by
  unfold sswu_x sswu_xn prose_x
  by_cases hq : sswu_sq u
  · rw [if_pos hq, if_pos ((sswu_sqrt_ratio u).1.1 hq), prose_x1_eq]
  · rw [if_neg hq, if_neg (fun h => hq ((sswu_sqrt_ratio u).1.2 h)), prose_x2_eq, mul_assoc]

/-- **(b)** before the sign fix: `y0` of F.2 is a square root of the `gx` that the prose selects -/
theorem sswu_y0_sq (u : F) : (sswu_y0 u)^2 = prose_gx u := by
  obtain ⟨s1, s2, s3⟩ := sswu_sqrt_ratio u
  unfold sswu_y0 prose_gx
  by_cases hq : sswu_sq u
  · rw [if_pos hq, if_pos (s1.1 hq), prose_gx1_eq, eq_div_iff (sswu_gxd_ne u)]
    exact s2 hq
  · have hns : ¬ IsSquare (prose_gx1 u) := fun h => hq (s1.2 h)
    have h0 : sswu_tv2 u ≠ 0 := fun h => hns (exc_isSquare u h)
    rw [if_neg hq, if_neg hns]
    unfold prose_gx2
    rw [prose_x2_eq]
    have e4 : sswu_tv4 u = -(((AC : ℤ) : F) * sswu_tv2 u) := by
      unfold sswu_tv4; rw [Int.cast_zero, if_neg h0]; ring
    have hw := s3 hq
    refine nonsq_branch (K := F) ((AC : ℤ) : F) ((BC : ℤ) : F) ((ZC : ℤ) : F) u (sswu_tv1 u) (sswu_tv2 u) (sswu_tv3 u)
      (sswu_tv4 u) (sswu_gxn u) (sswu_y1 u) ?_ ?_ ?_ e4 (sswu_tv4_ne u) ?_ ?_
    · unfold sswu_tv1; ring
    · unfold sswu_tv2; ring
    · unfold sswu_tv3; rw [Int.cast_one]
    · unfold sswu_gxn; ring
    · rw [← hw]; unfold sswu_gxd; ring

/-- F.2 steps 24-25 (`e1 = sgn0(u) == sgn0(y); y = CMOV(-y, y, e1)`) are step 9 of the prose applied to `y0` -/
theorem sswu_y_eq (u : F) : sswu_y u = prose_y u (sswu_y0 u) := by
  unfold sswu_y prose_y
  by_cases h : sgn0 u = sgn0 (sswu_y0 u)
  · rw [if_pos h, if_neg (not_not.2 h)]
  · rw [if_neg h, if_pos h]

theorem sgn0_01 (v : F) : sgn0 v = 0 ∨ sgn0 v = 1 := by
  unfold sgn0; exact Int.emod_two_eq_zero_or_one _

theorem sgn0_neg (y : F) (hy : y ≠ 0) : sgn0 (-y) = 1 - sgn0 y := by
  unfold sgn0; exact neg_parity y (by rw [Int.cast_zero]; exact hy)

/-- step 9 establishes the sign rule: the result is `0` or has the sign of `u` -/
theorem prose_y_sign (u s : F) : prose_y u s = 0 ∨ sgn0 (prose_y u s) = sgn0 u := by
  unfold prose_y
  by_cases h : sgn0 u = sgn0 s
  · rw [if_neg (not_not.2 h)]; exact Or.inr h.symm
  · rw [if_pos h]
    by_cases hs : s = 0
    · left; rw [hs, neg_zero]
    · right
      rw [sgn0_neg s hs]
      rcases sgn0_01 u with a | a <;> rcases sgn0_01 s with b | b <;> omega

theorem prose_y_sq (u s : F) : (prose_y u s)^2 = s^2 := by
  unfold prose_y; split_ifs <;> ring

/-- step 9 makes the output independent of which square root steps 7/8 return (also when the root is 0) -/
theorem prose_y_indep (u s1 s2 : F) (h : s1^2 = s2^2) : prose_y u s1 = prose_y u s2 := by
  rcases eq_or_neg_of_sq s1 s2 h with e | e
  · rw [e]
  · by_cases h2 : s2 = 0
    · rw [e, h2, neg_zero]
    · have hs : sgn0 s1 = 1 - sgn0 s2 := by rw [e]; exact sgn0_neg s2 h2
      unfold prose_y
      by_cases hu : sgn0 u = sgn0 s2
      · have hu1 : sgn0 u ≠ sgn0 s1 := by
          rcases sgn0_01 u with a | a <;> rcases sgn0_01 s2 with b | b <;> omega
        rw [if_pos hu1, if_neg (not_not.2 hu), e, neg_neg]
      · have hu1 : sgn0 u = sgn0 s1 := by
          rcases sgn0_01 u with a | a <;> rcases sgn0_01 s2 with b | b <;> omega
        rw [if_neg (not_not.2 hu1), if_pos hu, e]

/-- **(b)**: `sswu_y u` is a square root of the `gx` that the prose selects -/
theorem sswu_y_sq (u : F) : (sswu_y u)^2 = prose_gx u := by
  rw [sswu_y_eq, prose_y_sq, sswu_y0_sq]

/-- **(c)**: the sign rule of step 9 -/
theorem sswu_y_sign (u : F) : sswu_y u = 0 ∨ sgn0 (sswu_y u) = sgn0 u := by
  rw [sswu_y_eq]; exact prose_y_sign u _

/-- the value whose square root steps 7/8 take is a square: `sqrt` in the prose is always defined -/
theorem prose_gx_isSquare (u : F) : IsSquare (prose_gx u) :=
  ⟨sswu_y u, by rw [← sswu_y_sq, pow_two]⟩

/-- a point `(x, y)` with `x` the prose's x and `y` a root of the prose's `gx` is on E' (`gx = x^3 + A x + B` by
definition, steps 4 and 6) -/
theorem prose_on_curve (u y : F) (hy : y^2 = prose_gx u) : onE3 (prose_x u) y := by
  unfold onE3 prose_x
  unfold prose_gx at hy
  split_ifs at hy ⊢ with hq
  · unfold prose_gx1 at hy; linear_combination hy
  · unfold prose_gx2 at hy; linear_combination hy

/-- **(d)**: the output of F.2 is on E'.  (Second proof of `SecpSMT.sswu_on_curve` of `SecpSMT2.lean`, here for
`sswu_y` and as a corollary of (a) and (b).) -/
theorem sswu_y_on_curve (u : F) : onE3 (sswu_x u) (sswu_y u) := by
  rw [sswu_x_eq_prose]; exact prose_on_curve u _ (sswu_y_sq u)

/-- **F.2 computes the map of section 6.6.2**, in the shape (a)-(d), with the prose's case distinction spelled out. -/
theorem sswu_computes_prose (u : F) :
    sswu_x u = (if IsSquare (prose_gx1 u) then prose_x1 u else prose_x2 u) ∧
    (sswu_y u)^2 = (if IsSquare (prose_gx1 u) then prose_gx1 u else prose_gx2 u) ∧
    (sswu_y u = 0 ∨ sgn0 (sswu_y u) = sgn0 u) ∧
    onE3 (sswu_x u) (sswu_y u) :=
  ⟨sswu_x_eq_prose u, sswu_y_sq u, sswu_y_sign u, sswu_y_on_curve u⟩

/-- **F.2 computes the map of section 6.6.2**, as an equality of outputs: whatever square root `s` of the selected
`gx` the prose's `sqrt` returns in step 7/8 (one exists: `prose_gx_isSquare`), the pair `(x, y)` returned in step 10
is `(sswu_x u, sswu_y u)`. -/
theorem sswu_eq_prose (u s : F) (hs : s^2 = prose_gx u) :
    sswu_x u = prose_x u ∧ sswu_y u = prose_y u s := by
  refine ⟨sswu_x_eq_prose u, ?_⟩
  rw [sswu_y_eq]
  exact prose_y_indep u _ _ (by rw [sswu_y0_sq, hs])

end SecpSMT
