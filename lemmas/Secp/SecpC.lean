import SecpB
open WeierstrassCurve
set_option linter.unusedSectionVars false
namespace Secp
variable {F : Type*} [Field F] [DecidableEq F]

lemma negY_eq (x y : F) : (W : Affine F).negY x y = -y := by simp [W]

/-- tangent case P = Q -/
lemma aff_dbl (h : Hyp F) (x y : F) (e : y^2 = x^3+7) :
    rcbZ x y 1 x y 1 ≠ 0 ∧
    ∃ e3 : (rcbY x y 1 x y 1 / rcbZ x y 1 x y 1)^2 = (rcbX x y 1 x y 1 / rcbZ x y 1 x y 1)^3 + 7,
      mkPt h x y e + mkPt h x y e = mkPt h _ _ e3 := by
  have hy0 : y ≠ 0 := y_ne_zero h e
  have h2 := h.two
  have zc : rcbZ x y 1 x y 1 = 8*y^3 := by
    unfold rcbZ; linear_combination (-6*y) * e
  have hZ : rcbZ x y 1 x y 1 ≠ 0 := by
    rw [zc]
    have : (8:F) = 2^3 := by norm_num
    rw [this]; exact mul_ne_zero (pow_ne_zero _ h2) (pow_ne_zero _ hy0)
  refine ⟨hZ, ?_⟩
  have hyn : y ≠ (W : Affine F).negY x y := by
    rw [negY_eq]; intro hh
    have : (2:F) * y = 0 := by linear_combination hh
    rcases mul_eq_zero.1 this with a | a
    · exact h2 a
    · exact hy0 a
  have hs : (W : Affine F).slope x x y y = 3*x^2 / (2*y) := by
    rw [Affine.slope_of_Y_ne rfl hyn, negY_eq]; simp only [W]; ring_nf
  have h2y : (2:F)*y ≠ 0 := mul_ne_zero h2 hy0
  have hX : rcbX x y 1 x y 1 / rcbZ x y 1 x y 1 = (W : Affine F).addX x x ((W : Affine F).slope x x y y) := by
    rw [hs]; simp only [Affine.addX, W]
    have c : rcbX x y 1 x y 1 * (2*y)^2 = ((3*x^2)^2 - 2*x*(2*y)^2) * rcbZ x y 1 x y 1 := by
      unfold rcbX rcbZ; linear_combination (54*x^4*y + 24*x*y^3) * e
    field_simp
    linear_combination c
  have hY : rcbY x y 1 x y 1 / rcbZ x y 1 x y 1 = (W : Affine F).addY x x y ((W : Affine F).slope x x y y) := by
    rw [hs]; simp only [Affine.addY, Affine.negAddY, Affine.negY, Affine.addX, W]
    have c : rcbY x y 1 x y 1 * (2*y)^3 =
        (-((3*x^2)*(((3*x^2)^2 - 2*x*(2*y)^2) - x*(2*y)^2) + y*(2*y)^3)) * rcbZ x y 1 x y 1 := by
      unfold rcbY rcbZ; linear_combination (-162*x^6*y + 24*y^5 + 504*y^3) * e
    field_simp
    linear_combination c
  have hns := Affine.nonsingular_add (nonsing h e) (nonsing h e) (fun hxy => hyn hxy.2)
  have e3 : (rcbY x y 1 x y 1 / rcbZ x y 1 x y 1)^2 = (rcbX x y 1 x y 1 / rcbZ x y 1 x y 1)^3 + 7 := by
    rw [hX, hY]; exact (eqn_iff _ _).1 hns.1
  refine ⟨e3, ?_⟩
  unfold mkPt
  rw [Affine.Point.add_self_of_Y_ne hyn]
  congr 1 <;> [exact hX.symm; exact hY.symm]

/-- P = -Q -/
lemma aff_neg (h : Hyp F) (x y : F) (e : y^2 = x^3+7) (e' : (-y)^2 = x^3+7) :
    rcbX x y 1 x (-y) 1 = 0 ∧ rcbZ x y 1 x (-y) 1 = 0 ∧ rcbY x y 1 x (-y) 1 ≠ 0 ∧
      mkPt h x y e + mkPt h x (-y) e' = 0 := by
  have hy0 : y ≠ 0 := y_ne_zero h e
  have h2y : (2:F)*y ≠ 0 := mul_ne_zero h.two hy0
  refine ⟨by unfold rcbX; ring, by unfold rcbZ; ring, ?_, ?_⟩
  · intro hz
    have key : ((3*x^2)^2 - 2*x*(2*y)^2)^3 + 7*(2*y)^6 = (rcbY x y 1 x (-y) 1)^2 := by
      unfold rcbY
      linear_combination (-729*x^9 + 1215*x^6*y^2 + 5103*x^6 - 513*x^3*y^4 - 3402*x^3*y^2 - 19845*x^3 - y^6 + 441*y^4 + 3969*y^2 + 27783) * e
    rw [hz] at key
    generalize hd : 2*y = d at key h2y
    apply h.nocube (((3*x^2)^2 - 2*x*d^2) / d^2)
    field_simp
    linear_combination key
  · unfold mkPt
    exact Affine.Point.add_of_Y_eq rfl (by rw [negY_eq]; ring)

end Secp
