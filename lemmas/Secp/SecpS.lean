import Mathlib.NumberTheory.LegendreSymbol.Basic
import Mathlib.Tactic

namespace Secp
open ZMod

variable {p : ℕ} [Fact p.Prime]

/-- **S1**: RFC 9380 F.2.1.2 `sqrt_ratio_3mod4`, for `p ≡ 3 (mod 4)`, `c1 = (p-3)/4`, `c2² = -Z`.
`y1 = (u v³)^c1 · u v`, `tv3 = y1² v`; the flag is `tv3 = u`. -/
theorem sqrt_ratio_3mod4 (hp : p % 4 = 3) (u v Z c2 : ZMod p) (hv : v ≠ 0) (hc2 : c2^2 = -Z) :
    let y1 := (v^2 * (u*v))^((p-3)/4) * (u*v)
    let tv3 := y1^2 * v
    ((tv3 = u) ↔ IsSquare (u / v)) ∧
    (tv3 = u → y1^2 * v = u) ∧
    (tv3 ≠ u → (y1*c2)^2 * v = Z * u) := by
  intro y1 tv3
  have hp2 : p ≠ 2 := by intro h; rw [h] at hp; norm_num at hp
  have hodd : p % 2 = 1 := by omega
  -- exponent bookkeeping: 2*((p-3)/4) + 1 = p/2 - ... ; we use  2*c1 + 2 = (p-1)/2 + ... precisely: 4*c1 = p-3
  have hc1 : 4 * ((p-3)/4) = p - 3 := by omega
  have hhalf : p / 2 = 2 * ((p-3)/4) + 1 := by omega
  set w := v^2 * (u*v) with hw
  have key : tv3 = u * w^(p/2) := by
    have e : w^(2*((p-3)/4)+1) = (w^((p-3)/4))^2 * w := by rw [pow_succ, pow_mul']
    rw [hhalf, e]
    simp only [tv3, y1, hw]
    ring
  by_cases hu : u = 0
  · subst hu
    have : tv3 = 0 := by simp [tv3, y1, w]
    refine ⟨?_, ?_, ?_⟩
    · simp [this]
    · intro _; simpa [tv3] using this
    · intro h; exact absurd this h
  · have hw0 : w ≠ 0 := by
      simp only [hw]; exact mul_ne_zero (pow_ne_zero _ hv) (mul_ne_zero hu hv)
    have hsq : IsSquare w ↔ IsSquare (u / v) := by
      have : w = (u / v) * (v^2)^2 := by simp only [hw]; field_simp
      rw [this]
      constructor
      · rintro ⟨r, hr⟩
        refine ⟨r / v^2, ?_⟩
        have hv2 : v^2 ≠ 0 := pow_ne_zero _ hv
        field_simp
        field_simp at hr
        linear_combination hr
      · rintro ⟨r, hr⟩
        exact ⟨r * v^2, by rw [hr]; ring⟩
    have h2 : (2 : ZMod p) ≠ 0 := by
      intro h
      have := (ZMod.natCast_eq_zero_iff 2 p).1 (by exact_mod_cast h)
      have := Nat.le_of_dvd (by norm_num) this
      have hp1 := (Fact.out : p.Prime).two_le
      omega
    rcases ZMod.pow_div_two_eq_neg_one_or_one p hw0 with h1 | h1
    · -- w^(p/2) = 1 : square
      have t : tv3 = u := by rw [key, h1, mul_one]
      refine ⟨⟨fun _ => hsq.1 ((ZMod.euler_criterion p hw0).2 h1), fun _ => t⟩, fun _ => t, fun h => absurd t h⟩
    · -- w^(p/2) = -1 : non-square
      have t : tv3 = -u := by rw [key, h1]; ring
      have tne : tv3 ≠ u := by
        rw [t]; intro h
        have : (2 : ZMod p) * u = 0 := by linear_combination -h
        rcases mul_eq_zero.1 this with a | a
        · exact h2 a
        · exact hu a
      refine ⟨⟨fun h => absurd h tne, fun h => ?_⟩, fun h => absurd h tne, fun _ => ?_⟩
      · exfalso
        have := (ZMod.euler_criterion p hw0).1 (hsq.2 h)
        rw [this] at h1
        have : (2 : ZMod p) = 0 := by linear_combination h1
        exact h2 this
      · have : y1^2 * v = -u := t
        calc (y1*c2)^2 * v = (y1^2 * v) * c2^2 := by ring
          _ = (-u) * (-Z) := by rw [this, hc2]
          _ = Z * u := by ring

end Secp
