import SecpE
import Mathlib.Tactic.ReduceModChar
import Mathlib.FieldTheory.Finite.Basic
open WeierstrassCurve
set_option linter.unusedSectionVars false
namespace Secp

/-- the field prime of secp256k1 -/
abbrev P : ℕ := 115792089237316195423570985008687907853269984665640564039457584007908834671663

theorem P_sub_one : P - 1 = 3 * 38597363079105398474523661669562635951089994888546854679819194669302944890554 := by
  norm_num [P]

theorem neg7_not_cube_pow : ((-7 : ZMod P))^(38597363079105398474523661669562635951089994888546854679819194669302944890554 : ℕ) ≠ 1 := by
  reduce_mod_char
  decide

/-- N1 + characteristic facts, from the single assumption that `P` is prime. -/
theorem hypP [Fact (Nat.Prime P)] : Hyp (ZMod P) where
  two := by reduce_mod_char; decide
  three := by reduce_mod_char; decide
  nocube := by
    intro t ht
    have t3 : t^3 = -7 := by linear_combination ht
    have t0 : t ≠ 0 := by
      rintro rfl
      have : (7 : ZMod P) = 0 := by linear_combination ht
      revert this; reduce_mod_char; decide
    have f := ZMod.pow_card_sub_one_eq_one t0
    rw [P_sub_one, pow_mul, t3] at f
    exact neg7_not_cube_pow f

end Secp
