import Mathlib.Data.Int.ModEq
import Mathlib.Data.ZMod.Basic
import Mathlib.Tactic

namespace Secp

/-! ### Montgomery glue (G1–G4), generic in the modulus -/

theorem modeq_of_inv {m R Ri : ℤ} (hR : (R * Ri) % m = 1 % m) : ∃ q : ℤ, R * Ri = 1 + q * m := by
  have : (R * Ri) ≡ 1 [ZMOD m] := hR
  obtain ⟨q, hq⟩ := (Int.modEq_iff_dvd.1 this.symm)
  exact ⟨q, by linear_combination hq⟩

/-- G1: Montgomery product. -/
theorem glue_mul {m R Ri : ℤ} (hR : (R * Ri) % m = 1 % m) (o a b k : ℤ) (h : o * R = a * b + k * m) :
    (o * Ri) % m = ((a * Ri % m) * (b * Ri % m)) % m := by
  obtain ⟨q, hq⟩ := modeq_of_inv hR
  rw [← Int.mul_emod]
  apply Int.ModEq.symm
  apply Int.modEq_iff_dvd.2
  exact ⟨k * Ri^2 - o * Ri * q, by linear_combination (Ri^2) * h - (o * Ri) * hq⟩

/-- G2: from Montgomery form:  o*R = a + k*m  ⇒  o ≡ a*Ri. -/
theorem glue_from {m R Ri : ℤ} (hR : (R * Ri) % m = 1 % m) (o a k : ℤ) (h : o * R = a + k * m) :
    o % m = (a * Ri) % m := by
  obtain ⟨q, hq⟩ := modeq_of_inv hR
  apply Int.modEq_iff_dvd.2
  exact ⟨o * q - k * Ri, by linear_combination (-Ri) * h + o * hq⟩

/-- G3: to Montgomery form: o*R = a*R2 + k*m with R2 ≡ R² ⇒ o*Ri ≡ a. -/
theorem glue_to {m R Ri R2 : ℤ} (hR : (R * Ri) % m = 1 % m) (hR2 : R2 % m = (R * R) % m)
    (o a k : ℤ) (h : o * R = a * R2 + k * m) : (o * Ri) % m = a % m := by
  obtain ⟨q, hq⟩ := modeq_of_inv hR
  have : R2 ≡ R * R [ZMOD m] := hR2
  obtain ⟨s, hs⟩ := Int.modEq_iff_dvd.1 this.symm
  apply Int.ModEq.symm
  apply Int.modEq_iff_dvd.2
  refine ⟨2*a*q + a*q^2*m + a*s*Ri^2 + k*Ri^2 - o*Ri*q, ?_⟩
  linear_combination (Ri^2) * h + (a*Ri^2) * hs + (-(o*Ri) + a*(R*Ri + 1) + a*q*m) * hq

/-- G4: x ↦ x*Ri mod m is injective on residues (so limb equality ⇔ value equality, and 0 ↦ 0). -/
theorem glue_inj {m R Ri : ℤ} (hR : (R * Ri) % m = 1 % m) (x y : ℤ) (h : (x * Ri) % m = (y * Ri) % m) :
    x % m = y % m := by
  obtain ⟨q, hq⟩ := modeq_of_inv hR
  have h' : x * Ri ≡ y * Ri [ZMOD m] := h
  obtain ⟨s, hs⟩ := Int.modEq_iff_dvd.1 h'
  apply Int.modEq_iff_dvd.2
  exact ⟨s * R - (y - x) * q, by linear_combination R * hs - (y - x) * hq⟩

end Secp
