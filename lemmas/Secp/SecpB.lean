import Mathlib.AlgebraicGeometry.EllipticCurve.Affine.Point
import Mathlib.Tactic

open WeierstrassCurve
set_option linter.unusedSectionVars false

namespace Secp

variable {F : Type*} [Field F] [DecidableEq F]

def W : WeierstrassCurve.Affine F := { a₁ := 0, a₂ := 0, a₃ := 0, a₄ := 0, a₆ := 7 }

structure Hyp (F : Type*) [Field F] : Prop where
  two : (2:F) ≠ 0
  three : (3:F) ≠ 0
  nocube : ∀ t : F, t^3 + 7 ≠ 0

lemma eqn_iff (x y : F) : (W : Affine F).Equation x y ↔ y^2 = x^3 + 7 := by
  rw [Affine.equation_iff]; simp [W]

lemma y_ne_zero (h : Hyp F) {x y : F} (e : y^2 = x^3+7) : y ≠ 0 := by
  rintro rfl
  exact h.nocube x (by linear_combination -e)

lemma nonsing (h : Hyp F) {x y : F} (e : y^2 = x^3+7) : (W : Affine F).Nonsingular x y := by
  rw [Affine.nonsingular_iff]
  refine ⟨(eqn_iff x y).2 e, Or.inr ?_⟩
  simp only [W, zero_mul, sub_zero]
  intro hy
  have : (2:F) * y = 0 := by linear_combination hy
  rcases mul_eq_zero.1 this with h2 | h0
  · exact h.two h2
  · exact y_ne_zero h e h0

noncomputable def mkPt (h : Hyp F) (x y : F) (e : y^2 = x^3+7) : (W : Affine F).Point :=
  .some x y (nonsing h e)

lemma mkPt_congr (h : Hyp F) {x y x' y' : F} (e : y^2 = x^3+7) (e' : y'^2 = x'^3+7) (hx : x = x') (hy : y = y') :
    mkPt h x y e = mkPt h x' y' e' := by
  subst hx; subst hy; rfl

def rcbX (X1 Y1 Z1 X2 Y2 Z2 : F) : F := (X1*Y2+X2*Y1)*(Y1*Y2-21*Z1*Z2)-21*(Y1*Z2+Y2*Z1)*(X1*Z2+X2*Z1)
def rcbY (X1 Y1 Z1 X2 Y2 Z2 : F) : F := (Y1*Y2+21*Z1*Z2)*(Y1*Y2-21*Z1*Z2)+63*X1*X2*(X1*Z2+X2*Z1)
def rcbZ (X1 Y1 Z1 X2 Y2 Z2 : F) : F := (Y1*Z2+Y2*Z1)*(Y1*Y2+21*Z1*Z2)+3*X1*X2*(X1*Y2+X2*Y1)

/-- chord case -/
lemma aff_chord (h : Hyp F) (x1 y1 x2 y2 : F) (e1 : y1^2 = x1^3+7) (e2 : y2^2 = x2^3+7) (hx : x1 ≠ x2) :
    rcbZ x1 y1 1 x2 y2 1 ≠ 0 ∧
    ∃ e3 : (rcbY x1 y1 1 x2 y2 1 / rcbZ x1 y1 1 x2 y2 1)^2 = (rcbX x1 y1 1 x2 y2 1 / rcbZ x1 y1 1 x2 y2 1)^3 + 7,
      mkPt h x1 y1 e1 + mkPt h x2 y2 e2 = mkPt h _ _ e3 := by
  have hd : x1 - x2 ≠ 0 := sub_ne_zero.2 hx
  -- Z3 ≠ 0
  have hZ : rcbZ x1 y1 1 x2 y2 1 ≠ 0 := by
    intro hz
    have key : ((y1+y2)^2 - (x1+x2)*(x1-x2)^2)^3 + 7*(x1-x2)^6 = (rcbZ x1 y1 1 x2 y2 1)^2 := by
      unfold rcbZ
      linear_combination (x1^6 - 3*x1^5*x2 + 9*x1^3*x2^3 - 2*x1^3*y1^2 - 6*x1^3*y1*y2 - 4*x1^3*y2^2 - 7*x1^3 - 12*x1^2*x2^4 + 3*x1^2*x2*y1^2 + 12*x1^2*x2*y1*y2 + 12*x1^2*x2*y2^2 + 21*x1^2*x2 - 6*x1*x2^5 + 3*x1*x2^2*y1^2 + 6*x1*x2^2*y1*y2 + 12*x1*x2^2*y2^2 - 105*x1*x2^2 + 3*x2^6 - 3*x2^3*y1^2 - 12*x2^3*y1*y2 - 18*x2^3*y2^2 - 21*x2^3 + y1^4 + 6*y1^3*y2 + 14*y1^2*y2^2 + 7*y1^2 + 18*y1*y2^3 + 14*y2^4 + 14*y2^2 - 392) * e1 + (-x1^6 + 6*x1^5*x2 + 5*x1^3*x2^3 + 6*x1^3*y1*y2 + 11*x1^3*y2^2 + 63*x1^3 + 6*x1^2*x2*y1*y2 + 3*x1^2*x2*y2^2 - 21*x1^2*x2 - 3*x1*x2^5 + 12*x1*x2^2*y1*y2 + 3*x1*x2^2*y2^2 + 105*x1*x2^2 + x2^6 - 6*x2^3*y1*y2 - 2*x2^3*y2^2 - 35*x2^3 + 6*y1*y2^3 + 126*y1*y2 + y2^4 + 105*y2^2 + 392) * e2
    rw [hz] at key
    apply h.nocube (((y1+y2)^2 - (x1+x2)*(x1-x2)^2) / (x1-x2)^2)
    field_simp
    linear_combination key
  refine ⟨hZ, ?_⟩
  have hX : rcbX x1 y1 1 x2 y2 1 / rcbZ x1 y1 1 x2 y2 1 =
      (W : Affine F).addX x1 x2 ((W : Affine F).slope x1 x2 y1 y2) := by
    rw [Affine.slope_of_X_ne hx]
    simp only [Affine.addX, W]
    have c : rcbX x1 y1 1 x2 y2 1 * (x1-x2)^2 = ((y1-y2)^2 - (x1+x2)*(x1-x2)^2) * rcbZ x1 y1 1 x2 y2 1 := by
      unfold rcbX rcbZ
      linear_combination (-3*x1^2*x2*y2 - 3*x1*x2^2*y1 + 3*x1*x2^2*y2 + 2*x2^3*y2 - y1^2*y2 + y1*y2^2 - 21*y1 + y2^3 + 14*y2) * e1 + (3*x1^3*y1 + x1^3*y2 + 3*x1^2*x2*y1 - 3*x1^2*x2*y2 - 3*x1*x2^2*y1 - y1*y2^2 + 21*y1 - 14*y2) * e2
    field_simp
    linear_combination c
  have hY : rcbY x1 y1 1 x2 y2 1 / rcbZ x1 y1 1 x2 y2 1 =
      (W : Affine F).addY x1 x2 y1 ((W : Affine F).slope x1 x2 y1 y2) := by
    rw [Affine.slope_of_X_ne hx]
    simp only [Affine.addY, Affine.negAddY, Affine.negY, Affine.addX, W]
    have c : rcbY x1 y1 1 x2 y2 1 * (x1-x2)^3 =
        (-((y1-y2)*(((y1-y2)^2 - (x1+x2)*(x1-x2)^2) - x1*(x1-x2)^2) + y1*(x1-x2)^3)) * rcbZ x1 y1 1 x2 y2 1 := by
      unfold rcbY rcbZ
      linear_combination (9*x1^2*x2^4 + 3*x1^2*x2*y1*y2 - 15*x1^2*x2*y2^2 - 6*x1*x2^5 + 3*x1*x2^2*y1^2 - 6*x1*x2^2*y1*y2 + 15*x1*x2^2*y2^2 + 84*x1*x2^2 - 2*x2^3*y1*y2 - 2*x2^3*y2^2 - 42*x2^3 + y1^3*y2 - 2*y1^2*y2^2 + 21*y1^2 - 35*y1*y2 + 2*y2^4 - 14*y2^2 + 147) * e1 + (-9*x1^5*x2 + 6*x1^4*x2^2 + 2*x1^3*y1*y2 + 2*x1^3*y2^2 + 42*x1^3 + 6*x1^2*x2*y1*y2 - 3*x1^2*x2*y2^2 - 189*x1^2*x2 - 3*x1*x2^2*y1*y2 + 105*x1*x2^2 - y1*y2^3 + 35*y1*y2 - 7*y2^2 - 147) * e2
    field_simp
    linear_combination c
  have hns := Affine.nonsingular_add (nonsing h e1) (nonsing h e2) (fun hxy => hx hxy.1)
  have e3 : (rcbY x1 y1 1 x2 y2 1 / rcbZ x1 y1 1 x2 y2 1)^2 = (rcbX x1 y1 1 x2 y2 1 / rcbZ x1 y1 1 x2 y2 1)^3 + 7 := by
    rw [hX, hY]; exact (eqn_iff _ _).1 hns.1
  refine ⟨e3, ?_⟩
  unfold mkPt
  rw [Affine.Point.add_of_X_ne hx]
  congr 1 <;> [exact hX.symm; exact hY.symm]

end Secp
