import SecpC
open WeierstrassCurve
set_option linter.unusedSectionVars false
namespace Secp
variable {F : Type*} [Field F] [DecidableEq F]

/-- projective validity: on the curve and not (0,0,0) -/
def Valid (X Y Z : F) : Prop := Y^2*Z = X^3 + 7*Z^3 ∧ (X ≠ 0 ∨ Y ≠ 0 ∨ Z ≠ 0)

/-- the group element a projective triple stands for -/
noncomputable def pt (h : Hyp F) (X Y Z : F) : (W : Affine F).Point :=
  if Z = 0 then 0 else if e : (Y/Z)^2 = (X/Z)^3 + 7 then mkPt h (X/Z) (Y/Z) e else 0

lemma pt_zero (h : Hyp F) (X Y : F) : pt h X Y 0 = 0 := by simp [pt]

lemma pt_aff (h : Hyp F) {X Y Z : F} (hz : Z ≠ 0) (e : (Y/Z)^2 = (X/Z)^3 + 7) :
    pt h X Y Z = mkPt h (X/Z) (Y/Z) e := by simp [pt, hz, e]

lemma valid_aff {X Y Z : F} (v : Valid X Y Z) (hz : Z ≠ 0) : (Y/Z)^2 = (X/Z)^3 + 7 := by
  have := v.1
  field_simp
  linear_combination this

lemma valid_inf {X Y Z : F} (v : Valid X Y Z) (hz : Z = 0) : X = 0 ∧ Y ≠ 0 := by
  subst hz
  have h1 := v.1
  have hx : X = 0 := by
    have : X^3 = 0 := by linear_combination -h1
    exact pow_eq_zero_iff (by norm_num) |>.1 this
  refine ⟨hx, ?_⟩
  rcases v.2 with a | a | a
  · exact absurd hx a
  · exact a
  · exact absurd rfl a

lemma valid_Y_ne (h : Hyp F) {X Y Z : F} (v : Valid X Y Z) : Y ≠ 0 := by
  by_cases hz : Z = 0
  · exact (valid_inf v hz).2
  · intro hy
    have e := valid_aff v hz
    exact y_ne_zero h e (by rw [hy]; simp)

lemma valid_scale {X Y Z c : F} (hc : c ≠ 0) (v : Valid X Y Z) : Valid (c*X) (c*Y) (c*Z) := by
  refine ⟨by linear_combination c^3 * v.1, ?_⟩
  rcases v.2 with a | a | a
  · exact Or.inl (mul_ne_zero hc a)
  · exact Or.inr (Or.inl (mul_ne_zero hc a))
  · exact Or.inr (Or.inr (mul_ne_zero hc a))

lemma pt_scale (h : Hyp F) {X Y Z c : F} (hc : c ≠ 0) : pt h (c*X) (c*Y) (c*Z) = pt h X Y Z := by
  by_cases hz : Z = 0
  · subst hz; simp [pt]
  · have hcz : c*Z ≠ 0 := mul_ne_zero hc hz
    have hx : c*X/(c*Z) = X/Z := mul_div_mul_left _ _ hc
    have hy : c*Y/(c*Z) = Y/Z := mul_div_mul_left _ _ hc
    simp only [pt, hz, hcz, if_false, hx, hy]

/-- validity of an affine-normalised triple -/
lemma valid_of_aff {X Y Z : F} (hz : Z ≠ 0) (e : (Y/Z)^2 = (X/Z)^3 + 7) : Valid X Y Z := by
  refine ⟨?_, Or.inr (Or.inr hz)⟩
  field_simp at e
  linear_combination e

/-- all affine cases together -/
lemma aff_add (h : Hyp F) (x1 y1 x2 y2 : F) (e1 : y1^2 = x1^3+7) (e2 : y2^2 = x2^3+7) :
    Valid (rcbX x1 y1 1 x2 y2 1) (rcbY x1 y1 1 x2 y2 1) (rcbZ x1 y1 1 x2 y2 1) ∧
    pt h (rcbX x1 y1 1 x2 y2 1) (rcbY x1 y1 1 x2 y2 1) (rcbZ x1 y1 1 x2 y2 1) = mkPt h x1 y1 e1 + mkPt h x2 y2 e2 := by
  by_cases hx : x1 = x2
  · subst hx
    have hyy : (y1 - y2) * (y1 + y2) = 0 := by linear_combination e1 - e2
    rcases mul_eq_zero.1 hyy with a | a
    · have : y1 = y2 := by linear_combination a
      subst this
      obtain ⟨hZ, e3, hs⟩ := aff_dbl h x1 y1 e1
      exact ⟨valid_of_aff hZ e3, by rw [pt_aff h hZ e3, hs]⟩
    · have : y2 = -y1 := by linear_combination a
      subst this
      obtain ⟨hX, hZ, hY, hs⟩ := aff_neg h x1 y1 e1 e2
      refine ⟨⟨by rw [hX, hZ]; ring, Or.inr (Or.inl hY)⟩, ?_⟩
      rw [hZ, pt_zero, hs]
  · obtain ⟨hZ, e3, hs⟩ := aff_chord h x1 y1 x2 y2 e1 e2 hx
    exact ⟨valid_of_aff hZ e3, by rw [pt_aff h hZ e3, hs]⟩

/-- **E1**: the RCB Algorithm 7 polynomials implement the group law on every pair of valid triples. -/
theorem rcb_add (h : Hyp F) {X1 Y1 Z1 X2 Y2 Z2 : F} (v1 : Valid X1 Y1 Z1) (v2 : Valid X2 Y2 Z2) :
    Valid (rcbX X1 Y1 Z1 X2 Y2 Z2) (rcbY X1 Y1 Z1 X2 Y2 Z2) (rcbZ X1 Y1 Z1 X2 Y2 Z2) ∧
    pt h (rcbX X1 Y1 Z1 X2 Y2 Z2) (rcbY X1 Y1 Z1 X2 Y2 Z2) (rcbZ X1 Y1 Z1 X2 Y2 Z2)
      = pt h X1 Y1 Z1 + pt h X2 Y2 Z2 := by
  have hY1 := valid_Y_ne h v1
  have hY2 := valid_Y_ne h v2
  by_cases hz1 : Z1 = 0
  · obtain ⟨hx1, _⟩ := valid_inf v1 hz1
    subst hz1; subst hx1
    have hc : Y1^2*Y2 ≠ 0 := mul_ne_zero (pow_ne_zero _ hY1) hY2
    have a : rcbX 0 Y1 0 X2 Y2 Z2 = (Y1^2*Y2)*X2 := by unfold rcbX; ring
    have b : rcbY 0 Y1 0 X2 Y2 Z2 = (Y1^2*Y2)*Y2 := by unfold rcbY; ring
    have c : rcbZ 0 Y1 0 X2 Y2 Z2 = (Y1^2*Y2)*Z2 := by unfold rcbZ; ring
    rw [a, b, c]
    exact ⟨valid_scale hc v2, by rw [pt_scale h hc, pt_zero, zero_add]⟩
  by_cases hz2 : Z2 = 0
  · obtain ⟨hx2, _⟩ := valid_inf v2 hz2
    subst hz2; subst hx2
    have hc : Y2^2*Y1 ≠ 0 := mul_ne_zero (pow_ne_zero _ hY2) hY1
    have a : rcbX X1 Y1 Z1 0 Y2 0 = (Y2^2*Y1)*X1 := by unfold rcbX; ring
    have b : rcbY X1 Y1 Z1 0 Y2 0 = (Y2^2*Y1)*Y1 := by unfold rcbY; ring
    have c : rcbZ X1 Y1 Z1 0 Y2 0 = (Y2^2*Y1)*Z1 := by unfold rcbZ; ring
    rw [a, b, c]
    exact ⟨valid_scale hc v1, by rw [pt_scale h hc, pt_zero, add_zero]⟩
  -- both affine: homogeneity
  have e1 := valid_aff v1 hz1
  have e2 := valid_aff v2 hz2
  have hc : (Z1*Z2)^2 ≠ 0 := pow_ne_zero _ (mul_ne_zero hz1 hz2)
  have a : rcbX X1 Y1 Z1 X2 Y2 Z2 = (Z1*Z2)^2 * rcbX (X1/Z1) (Y1/Z1) 1 (X2/Z2) (Y2/Z2) 1 := by
    unfold rcbX; field_simp
  have b : rcbY X1 Y1 Z1 X2 Y2 Z2 = (Z1*Z2)^2 * rcbY (X1/Z1) (Y1/Z1) 1 (X2/Z2) (Y2/Z2) 1 := by
    unfold rcbY; field_simp
  have c : rcbZ X1 Y1 Z1 X2 Y2 Z2 = (Z1*Z2)^2 * rcbZ (X1/Z1) (Y1/Z1) 1 (X2/Z2) (Y2/Z2) 1 := by
    unfold rcbZ; field_simp
  obtain ⟨va, pa⟩ := aff_add h _ _ _ _ e1 e2
  rw [a, b, c]
  exact ⟨valid_scale hc va, by rw [pt_scale h hc, pa, pt_aff h hz1 e1, pt_aff h hz2 e2]⟩

end Secp
