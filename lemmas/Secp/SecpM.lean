import SecpS
import SecpI
import SecpPrime
import Mathlib.Tactic.ReduceModChar
import Mathlib.Tactic

namespace Secp
open ZMod

instance : Fact (Nat.Prime P) := ⟨prime_P⟩

def Zc : Fp := -11
def c2 : Fp := 0x31fdf302724013e57ad13fb38f842afeec184f00a74789dd286729c8303c4a59
def rexc : Fp := 18364601681750688294657986852423245333803871022936718218329797708983130841480

theorem P_mod4 : P % 4 = 3 := by norm_num [P]
theorem c2_sq : c2^2 = -Zc := by unfold c2 Zc; decide
theorem A_ne : A' ≠ 0 := by unfold A'; decide
theorem Zc_ne : Zc ≠ 0 := by unfold Zc; decide
/-- the value `g(B'/(Z A'))` taken in the exceptional branch is a square: `rexc² · (A'Z)³ = gxn`. -/
theorem exc_sq : rexc^2 * (A'*Zc)^3 = (B'^2 + A'*(A'*Zc)^2)*B' + B'*(A'*Zc)^3 := by
  unfold rexc A' B' Zc; decide

/-- **M1** (on-curve part): the straight-line SSWU of RFC 9380 F.2 always lands on E'. -/
theorem sswu_on_curve (u tv1 tv2 tv3 tv4 gxn gxd y1 : Fp)
    (h1 : tv1 = Zc*u^2) (h2 : tv2 = tv1^2 + tv1) (h3 : tv3 = B'*(tv2+1))
    (h4 : tv4 = A' * (if tv2 = 0 then Zc else -tv2))
    (hn : gxn = (tv3^2 + A'*tv4^2)*tv3 + B'*tv4^3) (hd : gxd = tv4^3)
    (hy1 : y1 = (gxd^2*(gxn*gxd))^((P-3)/4) * (gxn*gxd)) :
    (if y1^2*gxd = gxn then y1 else tv1*u*(y1*c2))^2
      = ((if y1^2*gxd = gxn then tv3 else tv1*tv3) / tv4)^3
        + A' * ((if y1^2*gxd = gxn then tv3 else tv1*tv3) / tv4) + B' := by
  have htv4 : tv4 ≠ 0 := by
    rw [h4]; refine mul_ne_zero A_ne ?_
    split_ifs with h0
    · exact Zc_ne
    · exact neg_ne_zero.2 h0
  have hgxd : gxd ≠ 0 := by rw [hd]; exact pow_ne_zero _ htv4
  obtain ⟨s1, _, s3⟩ := sqrt_ratio_3mod4 (p := P) P_mod4 gxn gxd Zc c2 hgxd c2_sq
  rw [← hy1] at s1 s3
  by_cases hq : y1^2*gxd = gxn
  · simp only [hq, if_true]
    rw [hd, hn] at hq
    field_simp
    linear_combination hq
  · simp only [hq, if_false]
    have s := s3 hq
    by_cases h0 : tv2 = 0
    · exfalso
      apply hq
      apply s1.2
      have e4 : tv4 = A'*Zc := by rw [h4, if_pos h0]
      have e3 : tv3 = B' := by rw [h3, h0]; ring
      refine ⟨rexc, ?_⟩
      rw [hn, hd, e4, e3, div_eq_iff (pow_ne_zero _ (mul_ne_zero A_ne Zc_ne))]
      linear_combination -exc_sq
    · have e4 : tv4 = -(A'*tv2) := by rw [h4, if_neg h0]; ring
      have id1 : tv1^3 * gxn = (tv1*tv3)^3 + A'*(tv1*tv3)*tv4^2 + B'*tv4^3 := by
        rw [hn, e4, h3, h2]; ring
      have id2 : (tv1*u)^2 * Zc = tv1^3 := by rw [h1]; ring
      rw [hd] at s
      field_simp
      linear_combination ((tv1*u)^2) * s + gxn * id2 + id1
end Secp
