import Mathlib.FieldTheory.Finite.Basic
import Mathlib.Tactic
namespace Secp
variable {p : ℕ} [Fact p.Prime]
/-- **F1**: inversion by Fermat: `x^(p-2)` is the inverse (and 0 for 0, when p > 2). -/
theorem fermat_inv (hp : 2 < p) (x : ZMod p) : x ^ (p - 2) = x⁻¹ := by
  by_cases hx : x = 0
  · subst hx; rw [zero_pow (by omega), inv_zero]
  · have h := ZMod.pow_card_sub_one_eq_one hx
    have e : p - 1 = (p - 2) + 1 := by omega
    rw [e, pow_succ] at h
    exact eq_inv_of_mul_eq_one_left h
theorem pow_chain_mul (x : ZMod p) (a b : ℕ) : x^a * x^b = x^(a+b) := (pow_add x a b).symm
theorem pow_chain_sq (x : ZMod p) (a : ℕ) : (x^a)^2 = x^(2*a) := by rw [← pow_mul, mul_comm]
end Secp
