import SecpD
import SecpM

/-!
# SMT lemmas that rest on `SecpM` / `SecpI` (`sswu_on_curve`, `iso_valid`)

`SecpSMT.lean` imports `SecpN`, and `SecpN` and `SecpI` both declare `Secp.P` (README, "Things to know when citing"),
so `SecpSMT.lean` cannot import `SecpM`/`SecpI`, and this file cannot import `SecpSMT.lean`.  The two theorems that
need `Secp.sswu_on_curve` (M1) and `Secp.iso_on_curve` (M2) therefore live here, in the same namespace `SecpSMT`,
with the part of the vocabulary they mention repeated *verbatim* from section 1 of `SecpSMT.lean`: every line
between `BEGIN SHARED` and `END SHARED` below is, character for character, a line of `SecpSMT.lean`
(`scripts/smt_table.py` checks this).  `SecpSMT.P := Secp.P` is `SecpI`'s `Secp.P` here and `SecpN`'s there:
the same literal.  The two files are never imported together.
-/

set_option linter.unusedSectionVars false
set_option linter.unusedVariables false

namespace SecpSMT

/-! ## 1. Vocabulary (copied from `SecpSMT.lean`, section 1) -/

-- BEGIN SHARED
abbrev P : ℕ := Secp.P
abbrev F := ZMod P
def C2 : ℤ := 0x31fdf302724013e57ad13fb38f842afeec184f00a74789dd286729c8303c4a59
def fint {m : ℕ} (x : ZMod m) : ℤ := (x.val : ℤ)
def fpow {m : ℕ} (x : ZMod m) (n : ℤ) : ZMod m := x ^ n.toNat
def sr_tv1 (u v : F) : F := (v * v) * (u * v)
def sr_y1 (u v : F) : F := fpow (sr_tv1 u v) (((P : ℤ) - 3) / 4) * (u * v)
def sr_isqr (u v : F) : Prop := (sr_y1 u v * sr_y1 u v) * v = u
instance (u v : F) : Decidable (sr_isqr u v) := by unfold sr_isqr; infer_instance
def sr_y (u v : F) : F := if sr_isqr u v then sr_y1 u v else sr_y1 u v * ((C2 : ℤ) : F)
def ZC : ℤ := 0xfffffffffffffffffffffffffffffffffffffffffffffffffffffffefffffc24
def AC : ℤ := 0x3f8731abdd661adca08a5558f0f5d272e953d363cb6f0e5d405447c01a444533
def BC : ℤ := 1771
def K10 : ℤ := 0x8e38e38e38e38e38e38e38e38e38e38e38e38e38e38e38e38e38e38daaaaa8c7
def K11 : ℤ := 0x7d3d4c80bc321d5b9f315cea7fd44c5d595d2fc0bf63b92dfff1044f17c6581
def K12 : ℤ := 0x534c328d23f234e6e2a413deca25caece4506144037c40314ecbd0b53d9dd262
def K13 : ℤ := 0x8e38e38e38e38e38e38e38e38e38e38e38e38e38e38e38e38e38e38daaaaa88c
def K20 : ℤ := 0xd35771193d94918a9ca34ccbb7b640dd86cd409542f8487d9fe6b745781eb49b
def K21 : ℤ := 0xedadc6f64383dc1df7c4b2d51b54225406d36b641f5e41bbc52a56612a8c6d14
def K30 : ℤ := 0x4bda12f684bda12f684bda12f684bda12f684bda12f684bda12f684b8e38e23c
def K31 : ℤ := 0xc75e0c32d5cb7c0fa9d0a54b12a0a6d5647ab046d686da6fdffc90fc201d71a3
def K32 : ℤ := 0x29a6194691f91a73715209ef6512e576722830a201be2018a765e85a9ecee931
def K33 : ℤ := 0x2f684bda12f684bda12f684bda12f684bda12f684bda12f684bda12f38e38d84
def K40 : ℤ := 0xfffffffffffffffffffffffffffffffffffffffffffffffffffffffefffff93b
def K41 : ℤ := 0x7a06534bb8bdb49fd5e9e6632722c2989467c1bfc8e8d978dfb425d2685c2573
def K42 : ℤ := 0x6484aa716545ca2cf3a70c3fa8fe337e0a3d21162f0d6299a7bf8192bfd2a76f
def sswu_tv1 (u : F) : F := ((ZC : ℤ) : F) * (u*u)
def sswu_tv2 (u : F) : F := sswu_tv1 u * sswu_tv1 u + sswu_tv1 u
def sswu_tv3 (u : F) : F := ((BC : ℤ) : F) * (sswu_tv2 u + ((1 : ℤ) : F))
def sswu_tv4 (u : F) : F := ((AC : ℤ) : F) * (if sswu_tv2 u = ((0 : ℤ) : F) then ((ZC : ℤ) : F) else -(sswu_tv2 u))
def sswu_gxn (u : F) : F := (sswu_tv3 u * sswu_tv3 u + ((AC : ℤ) : F) * (sswu_tv4 u * sswu_tv4 u)) * sswu_tv3 u + ((BC : ℤ) : F) * (sswu_tv4 u * sswu_tv4 u * sswu_tv4 u)
def sswu_gxd (u : F) : F := sswu_tv4 u * sswu_tv4 u * sswu_tv4 u
def sswu_sq (u : F) : Prop := sr_isqr (sswu_gxn u) (sswu_gxd u)
instance (u : F) : Decidable (sswu_sq u) := by unfold sswu_sq; infer_instance
def sswu_y1 (u : F) : F := sr_y (sswu_gxn u) (sswu_gxd u)
def sswu_xn (u : F) : F := if sswu_sq u then sswu_tv3 u else sswu_tv1 u * sswu_tv3 u
def sswu_y0 (u : F) : F := if sswu_sq u then sswu_y1 u else sswu_tv1 u * u * sswu_y1 u
def sswu_x (u : F) : F := sswu_xn u * (sswu_tv4 u)⁻¹
def onE3 (x y : F) : Prop := y*y = x*x*x + ((AC : ℤ) : F)*x + ((BC : ℤ) : F)
def iso_xnum (x : F) : F := ((K13 : ℤ) : F)*(x*x*x) + ((K12 : ℤ) : F)*(x*x) + ((K11 : ℤ) : F)*x + ((K10 : ℤ) : F)
def iso_xden (x : F) : F := x*x + ((K21 : ℤ) : F)*x + ((K20 : ℤ) : F)
def iso_ynum (x : F) : F := ((K33 : ℤ) : F)*(x*x*x) + ((K32 : ℤ) : F)*(x*x) + ((K31 : ℤ) : F)*x + ((K30 : ℤ) : F)
def iso_yden (x : F) : F := x*x*x + ((K42 : ℤ) : F)*(x*x) + ((K41 : ℤ) : F)*x + ((K40 : ℤ) : F)
def iso_id (x : F) : Prop := (iso_xden x)⁻¹ = ((0 : ℤ) : F) ∨ iso_yden x = ((0 : ℤ) : F)
instance (x : F) : Decidable (iso_id x) := by unfold iso_id; infer_instance
def iso_x (x : F) : F := if iso_id x then ((0 : ℤ) : F) else iso_xnum x * (iso_xden x)⁻¹
def iso_y (x y : F) : F := if iso_id x then ((1 : ℤ) : F) else y * iso_ynum x * (iso_yden x)⁻¹
def iso_z (x : F) : F := if iso_id x then ((0 : ℤ) : F) else ((1 : ℤ) : F)
-- END SHARED

/-! ## 2. The contract constants are the library constants -/

theorem ZC_cast : ((ZC : ℤ) : F) = Secp.Zc := by
  have e : ((ZC + 11 : ℤ) : F) = 0 :=
    (ZMod.intCast_zmod_eq_zero_iff_dvd _ _).2 ⟨1, by norm_num [ZC, P, Secp.P]⟩
  rw [Int.cast_add] at e
  unfold Secp.Zc
  linear_combination e
theorem AC_cast : ((AC : ℤ) : F) = Secp.A' := by simp [AC, Secp.A']
theorem BC_cast : ((BC : ℤ) : F) = Secp.B' := by simp [BC, Secp.B']
theorem C2_cast : ((C2 : ℤ) : F) = Secp.c2 := by simp [C2, Secp.c2]
theorem K10_cast : ((K10 : ℤ) : F) = Secp.k10 := by simp [K10, Secp.k10]
theorem K11_cast : ((K11 : ℤ) : F) = Secp.k11 := by simp [K11, Secp.k11]
theorem K12_cast : ((K12 : ℤ) : F) = Secp.k12 := by simp [K12, Secp.k12]
theorem K13_cast : ((K13 : ℤ) : F) = Secp.k13 := by simp [K13, Secp.k13]
theorem K20_cast : ((K20 : ℤ) : F) = Secp.k20 := by simp [K20, Secp.k20]
theorem K21_cast : ((K21 : ℤ) : F) = Secp.k21 := by simp [K21, Secp.k21]
theorem K30_cast : ((K30 : ℤ) : F) = Secp.k30 := by simp [K30, Secp.k30]
theorem K31_cast : ((K31 : ℤ) : F) = Secp.k31 := by simp [K31, Secp.k31]
theorem K32_cast : ((K32 : ℤ) : F) = Secp.k32 := by simp [K32, Secp.k32]
theorem K33_cast : ((K33 : ℤ) : F) = Secp.k33 := by simp [K33, Secp.k33]
theorem K40_cast : ((K40 : ℤ) : F) = Secp.k40 := by simp [K40, Secp.k40]
theorem K41_cast : ((K41 : ℤ) : F) = Secp.k41 := by simp [K41, Secp.k41]
theorem K42_cast : ((K42 : ℤ) : F) = Secp.k42 := by simp [K42, Secp.k42]

theorem sr_exp : ((((P : ℕ) : ℤ) - 3) / 4).toNat = (Secp.P - 3) / 4 := by simp only [P, Secp.P]; omega

theorem iso_xnum_eq (x : F) : iso_xnum x = Secp.xnum x := by
  unfold iso_xnum Secp.xnum; rw [K10_cast, K11_cast, K12_cast, K13_cast]; ring
theorem iso_xden_eq (x : F) : iso_xden x = Secp.xden x := by
  unfold iso_xden Secp.xden; rw [K20_cast, K21_cast]; ring
theorem iso_ynum_eq (x : F) : iso_ynum x = Secp.ynum x := by
  unfold iso_ynum Secp.ynum; rw [K30_cast, K31_cast, K32_cast, K33_cast]; ring
theorem iso_yden_eq (x : F) : iso_yden x = Secp.yden x := by
  unfold iso_yden Secp.yden; rw [K40_cast, K41_cast, K42_cast]; ring

/-! ## 3. The lemmas -/

/-- `sswu_on_curve(u)`: `onE3(sswu_x(u), sswu_y0(u))`.  Rests on `Secp.sswu_on_curve` (M1): the `//@ define`s
`sswu_tv1 .. sswu_gxd` are its hypotheses `h1 .. hd`, `sr_y1(gxn, gxd)` is its `y1` (`hy1`), `sr_isqr(gxn, gxd)`
its branch condition, and `sr_y` supplies the factor `c2` of the non-square branch. -/
theorem sswu_on_curve (u : F) : onE3 (sswu_x u) (sswu_y0 u) := by
  have h1 : sswu_tv1 u = Secp.Zc * u^2 := by unfold sswu_tv1; rw [ZC_cast]; ring
  have h2 : sswu_tv2 u = (sswu_tv1 u)^2 + sswu_tv1 u := by unfold sswu_tv2; ring
  have h3 : sswu_tv3 u = Secp.B' * (sswu_tv2 u + 1) := by unfold sswu_tv3; rw [BC_cast, Int.cast_one]
  have h4 : sswu_tv4 u = Secp.A' * (if sswu_tv2 u = 0 then Secp.Zc else -(sswu_tv2 u)) := by
    unfold sswu_tv4; rw [AC_cast, ZC_cast, Int.cast_zero]
  have hn : sswu_gxn u = ((sswu_tv3 u)^2 + Secp.A' * (sswu_tv4 u)^2) * sswu_tv3 u + Secp.B' * (sswu_tv4 u)^3 := by
    unfold sswu_gxn; rw [AC_cast, BC_cast]; ring
  have hd : sswu_gxd u = (sswu_tv4 u)^3 := by unfold sswu_gxd; ring
  have hy1 : sr_y1 (sswu_gxn u) (sswu_gxd u)
      = ((sswu_gxd u)^2 * (sswu_gxn u * sswu_gxd u))^((Secp.P - 3)/4) * (sswu_gxn u * sswu_gxd u) := by
    unfold sr_y1 sr_tv1 fpow; rw [sr_exp, pow_two]
  have M := Secp.sswu_on_curve u (sswu_tv1 u) (sswu_tv2 u) (sswu_tv3 u) (sswu_tv4 u) (sswu_gxn u) (sswu_gxd u)
    (sr_y1 (sswu_gxn u) (sswu_gxd u)) h1 h2 h3 h4 hn hd hy1
  have hc : sr_isqr (sswu_gxn u) (sswu_gxd u)
      ↔ (sr_y1 (sswu_gxn u) (sswu_gxd u))^2 * sswu_gxd u = sswu_gxn u := by
    unfold sr_isqr; rw [pow_two]
  unfold onE3 sswu_x
  rw [AC_cast, BC_cast]
  by_cases hq : sr_isqr (sswu_gxn u) (sswu_gxd u)
  · have ex : sswu_xn u = sswu_tv3 u := if_pos hq
    have ey : sswu_y0 u = sr_y1 (sswu_gxn u) (sswu_gxd u) := by
      unfold sswu_y0 sswu_y1 sr_y; rw [if_pos (show sswu_sq u from hq), if_pos hq]
    rw [if_pos (hc.1 hq), if_pos (hc.1 hq), div_eq_mul_inv] at M
    rw [ex, ey]
    linear_combination M
  · have ex : sswu_xn u = sswu_tv1 u * sswu_tv3 u := if_neg hq
    have ey1 : sswu_y1 u = sr_y1 (sswu_gxn u) (sswu_gxd u) * Secp.c2 := by
      unfold sswu_y1 sr_y; rw [if_neg hq, C2_cast]
    have ey : sswu_y0 u = sswu_tv1 u * u * (sr_y1 (sswu_gxn u) (sswu_gxd u) * Secp.c2) := by
      rw [← ey1]; unfold sswu_y0; rw [if_neg (show ¬ sswu_sq u from hq)]
    rw [if_neg (fun h => hq (hc.2 h)), if_neg (fun h => hq (hc.2 h)), div_eq_mul_inv] at M
    rw [ex, ey]
    linear_combination M

/-- `iso_valid(x, y)`: `imp(onE3(x, y), valid(iso_x(x), iso_y(x, y), iso_z(x)))`.  Rests on `Secp.iso_on_curve` (M2),
the cleared-denominator identity; in the `iso_id` branch the triple is `(0, 1, 0)`. -/
theorem iso_valid (x y : F) : onE3 x y → Secp.Valid (iso_x x) (iso_y x y) (iso_z x) := by
  intro h
  have h' : y^2 = x^3 + Secp.A' * x + Secp.B' := by
    unfold onE3 at h; rw [AC_cast, BC_cast] at h; linear_combination h
  have I := Secp.iso_on_curve x y h'
  unfold iso_x iso_y iso_z
  by_cases hid : iso_id x
  · simp only [if_pos hid]
    rw [Int.cast_zero, Int.cast_one]
    exact ⟨by ring, Or.inr (Or.inl one_ne_zero)⟩
  · simp only [if_neg hid]
    unfold iso_id at hid
    rw [Int.cast_zero] at hid
    have hxd : iso_xden x ≠ 0 := fun e => hid (Or.inl (by rw [e, inv_zero]))
    have hyd : iso_yden x ≠ 0 := fun e => hid (Or.inr e)
    rw [Int.cast_one]
    refine ⟨?_, Or.inr (Or.inr one_ne_zero)⟩
    rw [iso_xnum_eq, iso_ynum_eq]
    rw [iso_xden_eq] at hxd ⊢
    rw [iso_yden_eq] at hyd ⊢
    field_simp
    linear_combination I

end SecpSMT
