import SecpN
import SecpPrime
import SecpG
import SecpF
import SecpS

/-!
# The lemmas instantiated by the SMT side, one Lean theorem per `//@ lemma` line

Source of the statements: the `//@ lemma name(params) {lean: ...}: body` lines of
`/repo/internal/field/contracts_verif.go`, `/repo/internal/scalar/contracts_verif.go`, `/repo/contracts_verif.go`
and of the lemma programs `/verif/clients/*.go`.
Interpretation of the vocabulary: `/verif/lemmas/SMT_LEMMAS.md`.  Every theorem `SecpSMT.<name>` below is the
literal translation of the body of lemma `<name>` (same hypotheses, same conclusion, same constants), universally
quantified over its parameters.  `imp(a, b)` is `a → b`, `&&` is `∧`, `==` between Booleans is `↔`.

Section 1 fixes the vocabulary (definitions only), section 2 proves generic versions over `ZMod m`, `m` prime,
section 3 instantiates them at `P` and `N` and proves the remaining lemmas.
-/

open WeierstrassCurve
set_option linter.unusedSectionVars false
set_option linter.unusedVariables false

namespace SecpSMT

/-! ## 1. Vocabulary (SMT_LEMMAS.md, "Interpretation of the vocabulary") -/

/-- `P` = 2^256 - 2^32 - 977 (the same literal as `Secp.P` of SecpN.lean). -/
abbrev P : ℕ := Secp.P
/-- `N` = the group order. -/
abbrev N : ℕ := 115792089237316195423570985008687907852837564279074904382605163141518161494337

theorem P_eq : P = 0xfffffffffffffffffffffffffffffffffffffffffffffffffffffffefffffc2f := by norm_num [P, Secp.P]
theorem P_eq' : P = 2^256 - 2^32 - 977 := by norm_num [P, Secp.P]
theorem N_eq : N = 0xfffffffffffffffffffffffffffffffebaaedce6af48a03bbfd25e8cd0364141 := by norm_num [N]

instance factP : Fact (Nat.Prime P) := ⟨Secp.prime_P⟩
instance factN : Fact (Nat.Prime N) := ⟨Secp.prime_N⟩

/-- sort `F` -/
abbrev F := ZMod P
/-- sort `Fn` -/
abbrev Fn := ZMod N
/-- sort `G`: the group of points of y² = x³ + 7 over `ZMod P` -/
abbrev G := (Secp.W : Affine (ZMod P)).Point

/-- the `Secp.Hyp (ZMod P)` used by `ptf` and `aff` (N1, from `Secp.prime_P`) -/
theorem hP : Secp.Hyp (ZMod P) := Secp.hypP

/-- `R` = 2^256 -/
def R : ℤ := 0x10000000000000000000000000000000000000000000000000000000000000000
/-- `R2P` = R² mod P -/
def R2P : ℤ := 0x1000007a2000e90a1
/-- `R2N` = R² mod N -/
def R2N : ℤ := 0x9d671cd581c69bc5e697f5e45bcd07c6741496c20e7cf878896cf21467d7d140
/-- `C2` (RFC 9380 sqrt_ratio constant c2 = sqrt(-Z)) -/
def C2 : ℤ := 0x31fdf302724013e57ad13fb38f842afeec184f00a74789dd286729c8303c4a59

/-- `pow2(k)` = 2^k.  Only non-negative `k` matter; for `k < 0` this is `2^0`. -/
def pow2 (k : ℤ) : ℤ := 2 ^ k.toNat
/-- `hi(v, i)` = v / 2^i -/
def hi (v i : ℤ) : ℤ := v / pow2 i
/-- `bit(v, i)` = (v / 2^i) % 2 -/
def bit (v i : ℤ) : ℤ := (v / pow2 i) % 2
/-- `bitsumf(v, n)` = sum_{i<n} bit(v, i) * 2^i (`n` is a non-negative integer literal at every use) -/
def bitsumf (v n : ℤ) : ℤ := ∑ i ∈ Finset.range n.toNat, bit v (i : ℤ) * pow2 (i : ℤ)

/-- `fromM(x)` (m = P) / `fromMn(x)` (m = N): Montgomery decoding `x * R⁻¹` -/
def fromM (m : ℕ) (x : ℤ) : ZMod m := (x : ZMod m) * ((R : ℤ) : ZMod m)⁻¹
/-- `fofint(x)` / `nofint(x)` -/
def fofint (m : ℕ) (x : ℤ) : ZMod m := (x : ZMod m)
/-- `fint(x)`: the canonical representative -/
def fint {m : ℕ} (x : ZMod m) : ℤ := (x.val : ℤ)
/-- `fpow(x, n)` / `npow(x, n)` -/
def fpow {m : ℕ} (x : ZMod m) (n : ℤ) : ZMod m := x ^ n.toNat

/-- `ptf(X, Y, Z)` -/
noncomputable def ptf (X Y Z : F) : G := Secp.pt hP X Y Z
/-- `aff(x, y)`: the affine point (x, y) if it is on the curve, else 0 -/
noncomputable def aff (x y : F) : G := if e : y^2 = x^3 + 7 then Secp.mkPt hP x y e else 0
/-- `affx(g)`: x-coordinate (0 for the identity) -/
def affx : G → F
  | .zero => 0
  | .some x _ _ => x
/-- `affy(g)`: y-coordinate (0 for the identity) -/
def affy : G → F
  | .zero => 0
  | .some _ y _ => y

/-- `secp_poly(x)` = x*x*x + 7 -/
def secp_poly (x : F) : F := x*x*x + 7

/-- `sr_tv1(u, v) = fmul(fmul(v, v), fmul(u, v))` -/
def sr_tv1 (u v : F) : F := (v * v) * (u * v)
/-- `sr_y1(u, v) = fmul(fpow(sr_tv1(u, v), (P - 3) / 4), fmul(u, v))` -/
def sr_y1 (u v : F) : F := fpow (sr_tv1 u v) (((P : ℤ) - 3) / 4) * (u * v)
/-- `sr_isqr(u, v) = fmul(fmul(sr_y1(u, v), sr_y1(u, v)), v) == u` -/
def sr_isqr (u v : F) : Prop := (sr_y1 u v * sr_y1 u v) * v = u
instance (u v : F) : Decidable (sr_isqr u v) := by unfold sr_isqr; infer_instance
/-- `sr_y(u, v) = ite(sr_isqr(u, v), sr_y1(u, v), fmul(sr_y1(u, v), F(C2)))` -/
def sr_y (u v : F) : F := if sr_isqr u v then sr_y1 u v else sr_y1 u v * ((C2 : ℤ) : F)

/-! ### map to curve (`/repo/contracts_verif.go`): SSWU onto E' : y² = x³ + A'x + B' (RFC 9380 F.2, Z = -11),
the 3-isogeny E' → E (E.1), the chord sum on E'.  One line per `//@ const` / `//@ define`, same `ite` structure.
`Secp/SecpSMT2.lean` repeats the lines it needs verbatim (it cannot import this file, see there);
`scripts/smt_table.py` checks that the copies are identical. -/

def ZC : ℤ := 0xfffffffffffffffffffffffffffffffffffffffffffffffffffffffefffffc24
def AC : ℤ := 0x3f8731abdd661adca08a5558f0f5d272e953d363cb6f0e5d405447c01a444533
def BC : ℤ := 1771
def K10 : ℤ := 0x8e38e38e38e38e38e38e38e38e38e38e38e38e38e38e38e38e38e38daaaaa8c7
def K11 : ℤ := 0x7d3d4c80bc321d5b9f315cea7fd44c5d595d2fc0bf63b92dfff1044f17c6581
def K12 : ℤ := 0x534c328d23f234e6e2a413deca25caece4506144037c40314ecbd0b53d9dd262
def K13 : ℤ := 0x8e38e38e38e38e38e38e38e38e38e38e38e38e38e38e38e38e38e38daaaaa88c
def K20 : ℤ := 0xd35771193d94918a9ca34ccbb7b640dd86cd409542f8487d9fe6b745781eb49b
def K21 : ℤ := 0xedadc6f64383dc1df7c4b2d51b54225406d36b641f5e41bbc52a56612a8c6d14
def K30 : ℤ := 0x4bda12f684bda12f684bda12f684bda12f684bda12f684bda12f684b8e38e23c
def K31 : ℤ := 0xc75e0c32d5cb7c0fa9d0a54b12a0a6d5647ab046d686da6fdffc90fc201d71a3
def K32 : ℤ := 0x29a6194691f91a73715209ef6512e576722830a201be2018a765e85a9ecee931
def K33 : ℤ := 0x2f684bda12f684bda12f684bda12f684bda12f684bda12f684bda12f38e38d84
def K40 : ℤ := 0xfffffffffffffffffffffffffffffffffffffffffffffffffffffffefffff93b
def K41 : ℤ := 0x7a06534bb8bdb49fd5e9e6632722c2989467c1bfc8e8d978dfb425d2685c2573
def K42 : ℤ := 0x6484aa716545ca2cf3a70c3fa8fe337e0a3d21162f0d6299a7bf8192bfd2a76f

def sgn0 (v : F) : ℤ := fint v % 2
def sswu_tv1 (u : F) : F := ((ZC : ℤ) : F) * (u*u)
def sswu_tv2 (u : F) : F := sswu_tv1 u * sswu_tv1 u + sswu_tv1 u
def sswu_tv3 (u : F) : F := ((BC : ℤ) : F) * (sswu_tv2 u + ((1 : ℤ) : F))
def sswu_tv4 (u : F) : F := ((AC : ℤ) : F) * (if sswu_tv2 u = ((0 : ℤ) : F) then ((ZC : ℤ) : F) else -(sswu_tv2 u))
def sswu_gxn (u : F) : F := (sswu_tv3 u * sswu_tv3 u + ((AC : ℤ) : F) * (sswu_tv4 u * sswu_tv4 u)) * sswu_tv3 u + ((BC : ℤ) : F) * (sswu_tv4 u * sswu_tv4 u * sswu_tv4 u)
def sswu_gxd (u : F) : F := sswu_tv4 u * sswu_tv4 u * sswu_tv4 u
def sswu_sq (u : F) : Prop := sr_isqr (sswu_gxn u) (sswu_gxd u)
instance (u : F) : Decidable (sswu_sq u) := by unfold sswu_sq; infer_instance
def sswu_y1 (u : F) : F := sr_y (sswu_gxn u) (sswu_gxd u)
def sswu_xn (u : F) : F := if sswu_sq u then sswu_tv3 u else sswu_tv1 u * sswu_tv3 u
def sswu_y0 (u : F) : F := if sswu_sq u then sswu_y1 u else sswu_tv1 u * u * sswu_y1 u
def sswu_x (u : F) : F := sswu_xn u * (sswu_tv4 u)⁻¹
def sswu_y (u : F) : F := if sgn0 u = sgn0 (sswu_y0 u) then sswu_y0 u else -(sswu_y0 u)
def onE3 (x y : F) : Prop := y*y = x*x*x + ((AC : ℤ) : F)*x + ((BC : ℤ) : F)

def iso_xnum (x : F) : F := ((K13 : ℤ) : F)*(x*x*x) + ((K12 : ℤ) : F)*(x*x) + ((K11 : ℤ) : F)*x + ((K10 : ℤ) : F)
def iso_xden (x : F) : F := x*x + ((K21 : ℤ) : F)*x + ((K20 : ℤ) : F)
def iso_ynum (x : F) : F := ((K33 : ℤ) : F)*(x*x*x) + ((K32 : ℤ) : F)*(x*x) + ((K31 : ℤ) : F)*x + ((K30 : ℤ) : F)
def iso_yden (x : F) : F := x*x*x + ((K42 : ℤ) : F)*(x*x) + ((K41 : ℤ) : F)*x + ((K40 : ℤ) : F)
def iso_id (x : F) : Prop := (iso_xden x)⁻¹ = ((0 : ℤ) : F) ∨ iso_yden x = ((0 : ℤ) : F)
instance (x : F) : Decidable (iso_id x) := by unfold iso_id; infer_instance
def iso_x (x : F) : F := if iso_id x then ((0 : ℤ) : F) else iso_xnum x * (iso_xden x)⁻¹
def iso_y (x y : F) : F := if iso_id x then ((1 : ℤ) : F) else y * iso_ynum x * (iso_yden x)⁻¹
def iso_z (x : F) : F := if iso_id x then ((0 : ℤ) : F) else ((1 : ℤ) : F)

def chord_l (x2 y2 x1 y1 : F) : F := (y2 - y1) * (x2 - x1)⁻¹
def chord_x (x2 y2 x1 y1 : F) : F := chord_l x2 y2 x1 y1 * chord_l x2 y2 x1 y1 - x1 - x2
def chord_y (x2 y2 x1 y1 : F) : F := chord_l x2 y2 x1 y1 * (x1 - chord_x x2 y2 x1 y1) - y1
/-- `mapc(u)`: SSWU followed by the isogeny, as a group element -/
noncomputable def mapc (u : F) : G := ptf (iso_x (sswu_x u)) (iso_y (sswu_x u) (sswu_y u)) (iso_z (sswu_x u))

/-- The body of the lemma line `iso_hom_chord` of `/repo/contracts_verif.go` (RFC 9380 6.6.3: iso_map is a group
homomorphism; the line was first tagged `{lean: ASSUMED ...}`): its literal translation, as a `Prop`.  It is proved in
`SecpSMT3.lean`: `theorem SecpSMT.iso_hom_chord` has this statement verbatim, and
`SecpSMT.iso_hom_chord_statement_holds : iso_hom_chord_statement x2 y2 x1 y1`. -/
def iso_hom_chord_statement (x2 y2 x1 y1 : F) : Prop := (onE3 x2 y2 ∧ onE3 x1 y1 ∧ x1 ≠ x2) → ptf (iso_x (chord_x x2 y2 x1 y1)) (iso_y (chord_x x2 y2 x1 y1) (chord_y x2 y2 x1 y1)) (iso_z (chord_x x2 y2 x1 y1)) = ptf (iso_x x2) (iso_y x2 y2) (iso_z x2) + ptf (iso_x x1) (iso_y x1 y1) (iso_z x1)

/-- the `//@ define rcbX ...` lines are `Secp.rcbX` etc. (literal forms with `F(21)`, `Y*Y`, ...) -/
theorem rcbX_def (X1 Y1 Z1 X2 Y2 Z2 : F) : Secp.rcbX X1 Y1 Z1 X2 Y2 Z2 =
    (X1*Y2 + X2*Y1)*(Y1*Y2 - ((21:ℤ):F)*Z1*Z2) - ((21:ℤ):F)*(Y1*Z2 + Y2*Z1)*(X1*Z2 + X2*Z1) := by
  unfold Secp.rcbX; push_cast; ring
theorem rcbY_def (X1 Y1 Z1 X2 Y2 Z2 : F) : Secp.rcbY X1 Y1 Z1 X2 Y2 Z2 =
    (Y1*Y2 + ((21:ℤ):F)*Z1*Z2)*(Y1*Y2 - ((21:ℤ):F)*Z1*Z2) + ((63:ℤ):F)*X1*X2*(X1*Z2 + X2*Z1) := by
  unfold Secp.rcbY; push_cast; ring
theorem rcbZ_def (X1 Y1 Z1 X2 Y2 Z2 : F) : Secp.rcbZ X1 Y1 Z1 X2 Y2 Z2 =
    (Y1*Z2 + Y2*Z1)*(Y1*Y2 + ((21:ℤ):F)*Z1*Z2) + ((3:ℤ):F)*X1*X2*(X1*Y2 + X2*Y1) := by
  unfold Secp.rcbZ; push_cast; ring
theorem dblX_def (X Y Z : F) : Secp.dblX X Y Z = ((2:ℤ):F)*X*Y*(Y*Y - ((63:ℤ):F)*Z*Z) := by
  unfold Secp.dblX; push_cast; ring
theorem dblY_def (X Y Z : F) : Secp.dblY X Y Z =
    (Y*Y - ((63:ℤ):F)*Z*Z)*(Y*Y + ((21:ℤ):F)*Z*Z) + ((168:ℤ):F)*Y*Y*Z*Z := by
  unfold Secp.dblY; push_cast; ring
theorem dblZ_def (X Y Z : F) : Secp.dblZ X Y Z = ((8:ℤ):F)*Y*Y*Y*Z := by
  unfold Secp.dblZ; push_cast; ring
/-- `secp_poly` above writes the literal `7`; the `//@ define secp_poly(x) = x*x*x + F(7)` line, translated literally
(`scripts/gen_statements.py` checks the right-hand side against the contract file) -/
theorem secp_poly_def (x : F) : secp_poly x = x*x*x + ((7:ℤ):F) := by
  unfold secp_poly; rw [Int.cast_ofNat]

/-! ## 2. Generic versions over `ZMod m`, `m` prime -/

namespace Gen
variable {m : ℕ} [Fact m.Prime]

/-- an integer representative of `R⁻¹` modulo `m` (the `Ri` of SecpG.lean) -/
noncomputable def Ri (m : ℕ) : ℤ := ((((R : ℤ) : ZMod m)⁻¹).val : ℤ)

theorem Ri_cast : ((Ri m : ℤ) : ZMod m) = ((R : ℤ) : ZMod m)⁻¹ := by
  have : NeZero m := ⟨(Fact.out : m.Prime).ne_zero⟩
  simp [Ri]

theorem hRi (hR : ((R : ℤ) : ZMod m) ≠ 0) : (R * Ri m) % (m : ℤ) = 1 % (m : ℤ) := by
  have h : (((R * Ri m : ℤ)) : ZMod m) = ((1 : ℤ) : ZMod m) := by
    push_cast; rw [Ri_cast]; exact mul_inv_cancel₀ hR
  exact (ZMod.intCast_eq_intCast_iff _ _ _).1 h

theorem fromM_eq (x : ℤ) : fromM m x = ((x * Ri m : ℤ) : ZMod m) := by
  unfold fromM; push_cast; rw [Ri_cast]

theorem cast_of_emod {x y : ℤ} (h : x % (m : ℤ) = y % (m : ℤ)) : (x : ZMod m) = (y : ZMod m) :=
  (ZMod.intCast_eq_intCast_iff _ _ _).2 h

theorem exists_of_modeq {x y : ℤ} (h : x ≡ y [ZMOD (m : ℤ)]) : ∃ k : ℤ, x = y + k * m := by
  obtain ⟨c, hc⟩ := Int.modEq_iff_dvd.1 h
  exact ⟨-c, by linear_combination -hc⟩

theorem glue_add (o a b : ℤ) :
    (a < m ∧ b < m ∧ o = (a + b) % m) → fromM m o = fromM m a + fromM m b := by
  rintro ⟨-, -, rfl⟩
  unfold fromM; rw [ZMod.intCast_mod]; push_cast; ring

theorem glue_sub (o a b : ℤ) :
    (a < m ∧ b < m ∧ o = (a - b) % m) → fromM m o = fromM m a - fromM m b := by
  rintro ⟨-, -, rfl⟩
  unfold fromM; rw [ZMod.intCast_mod]; push_cast; ring

theorem glue_neg (o a : ℤ) :
    (a < m ∧ o = (0 - a) % m) → fromM m o = - fromM m a := by
  rintro ⟨-, rfl⟩
  unfold fromM; rw [ZMod.intCast_mod]; push_cast; ring

/-- rests on `Secp.glue_mul` (G1) -/
theorem glue_mul (hR : ((R : ℤ) : ZMod m) ≠ 0) (o a b : ℤ) :
    (a < m ∧ b < m ∧ o < m ∧ o * R ≡ a * b [ZMOD (m : ℤ)]) → fromM m o = fromM m a * fromM m b := by
  rintro ⟨-, -, -, h⟩
  obtain ⟨k, hk⟩ := exists_of_modeq h
  have g := Secp.glue_mul (hRi hR) o a b k hk
  have g' := congrArg (fun z : ℤ => (z : ZMod m)) g
  simp only [ZMod.intCast_mod, Int.cast_mul] at g'
  simp only [fromM_eq, Int.cast_mul]
  exact g'

/-- rests on `Secp.glue_to` (G3) -/
theorem glue_to (hR : ((R : ℤ) : ZMod m) ≠ 0) {R2 : ℤ} (hR2 : R2 % (m : ℤ) = (R * R) % (m : ℤ)) (o a : ℤ) :
    (a < m ∧ o < m ∧ o * R ≡ a * R2 [ZMOD (m : ℤ)]) → fromM m o = fofint m a := by
  rintro ⟨-, -, h⟩
  obtain ⟨k, hk⟩ := exists_of_modeq h
  have g := Secp.glue_to (hRi hR) hR2 o a k hk
  rw [fromM_eq]
  exact cast_of_emod g

/-- rests on `Secp.glue_from` (G2) -/
theorem glue_from (hR : ((R : ℤ) : ZMod m) ≠ 0) (o a : ℤ) :
    (a < m ∧ 0 ≤ o ∧ o < m ∧ o * R ≡ a [ZMOD (m : ℤ)]) → fint (fromM m a) = o := by
  rintro ⟨-, h0, h1, h⟩
  have : NeZero m := ⟨(Fact.out : m.Prime).ne_zero⟩
  obtain ⟨k, hk⟩ := exists_of_modeq h
  have g := Secp.glue_from (hRi hR) o a k hk
  rw [fromM_eq, ← cast_of_emod g]
  unfold fint
  rw [ZMod.val_intCast]
  exact Int.emod_eq_of_lt h0 h1

/-- rests on `Secp.glue_inj` (G4) -/
theorem glue_inj (hR : ((R : ℤ) : ZMod m) ≠ 0) (x y : ℤ) :
    (0 ≤ x ∧ x < m ∧ 0 ≤ y ∧ y < m) → ((fromM m x = fromM m y) ↔ (x = y)) := by
  rintro ⟨hx0, hx1, hy0, hy1⟩
  constructor
  · intro h
    rw [fromM_eq, fromM_eq] at h
    have g := Secp.glue_inj (hRi hR) x y ((ZMod.intCast_eq_intCast_iff _ _ _).1 h)
    rwa [Int.emod_eq_of_lt hx0 hx1, Int.emod_eq_of_lt hy0 hy1] at g
  · rintro rfl; rfl

/-- rests on `Secp.glue_inj` (G4) at `y = 0` -/
theorem glue_zero (hR : ((R : ℤ) : ZMod m) ≠ 0) (x : ℤ) :
    (0 ≤ x ∧ x < m) → ((fromM m x = ((0 : ℤ) : ZMod m)) ↔ (x = 0)) := by
  rintro ⟨hx0, hx1⟩
  have hm : (0 : ℤ) < m := by exact_mod_cast (Fact.out : m.Prime).pos
  have z : fromM m 0 = ((0 : ℤ) : ZMod m) := by simp [fromM]
  rw [← z]
  exact glue_inj hR x 0 ⟨hx0, hx1, le_refl _, hm⟩

theorem fofint_mod (x y : ℤ) : ((x - y) % m = 0) → fofint m x = fofint m y := by
  intro h
  unfold fofint
  have : ((x - y : ℤ) : ZMod m) = 0 := (ZMod.intCast_zmod_eq_zero_iff_dvd _ _).2 (Int.dvd_of_emod_eq_zero h)
  push_cast at this
  exact sub_eq_zero.1 this

theorem fint_range (x : ZMod m) : 0 ≤ fint x ∧ fint x < m := by
  have : NeZero m := ⟨(Fact.out : m.Prime).ne_zero⟩
  unfold fint
  exact ⟨Int.natCast_nonneg _, by exact_mod_cast ZMod.val_lt x⟩

theorem fofint_fint (x : ℤ) : (0 ≤ x ∧ x < m) → fint (fofint m x) = x := by
  rintro ⟨h0, h1⟩
  have : NeZero m := ⟨(Fact.out : m.Prime).ne_zero⟩
  unfold fint fofint
  rw [ZMod.val_intCast]
  exact Int.emod_eq_of_lt h0 h1

theorem fofint_wide (a b c : ℤ) :
    (fofint m a + fofint m b * ((pow2 192 : ℤ) : ZMod m)) + fofint m c * ((pow2 384 : ℤ) : ZMod m)
      = fofint m (a + b * pow2 192 + c * pow2 384) := by
  unfold fofint; push_cast; ring

theorem fofint_lin (a b c : ℤ) :
    fofint m a + fofint m b * fofint m c = fofint m (a + b * c) := by
  unfold fofint; push_cast; ring

/-- rests on `Secp.fermat_inv` (F1) -/
theorem fermat_inv (hm : 2 < m) (x : ZMod m) : fpow x ((m : ℤ) - 2) = x⁻¹ := by
  unfold fpow
  have : ((m : ℤ) - 2).toNat = m - 2 := by omega
  rw [this]
  exact Secp.fermat_inv hm x

end Gen

/-! ## 3. The lemmas -/

theorem two_lt_P : 2 < P := by norm_num [P, Secp.P]
theorem two_lt_N : 2 < N := by norm_num [N]

theorem R_eq : R = 2 ^ 256 := by norm_num [R]

theorem R_ne_zero {m : ℕ} [Fact m.Prime] (hm : 2 < m) : ((R : ℤ) : ZMod m) ≠ 0 := by
  rw [R_eq, Int.cast_pow]
  apply pow_ne_zero
  intro h
  have h' : ((2 : ℕ) : ZMod m) = 0 := by exact_mod_cast h
  have := Nat.le_of_dvd (by norm_num) ((ZMod.natCast_eq_zero_iff _ _).1 h')
  omega

theorem hRP : ((R : ℤ) : ZMod P) ≠ 0 := R_ne_zero two_lt_P
theorem hRN : ((R : ℤ) : ZMod N) ≠ 0 := R_ne_zero two_lt_N
theorem hR2P : R2P % (P : ℤ) = (R * R) % (P : ℤ) := by norm_num [R2P, R, P, Secp.P]
theorem hR2N : R2N % (N : ℤ) = (R * R) % (N : ℤ) := by norm_num [R2N, R, N]

/-! ### internal/field/contracts_verif.go -/

theorem glue_add (o a b : ℤ) :
    (a < P ∧ b < P ∧ o = (a + b) % P) → fromM P o = fromM P a + fromM P b := Gen.glue_add o a b

theorem glue_sub (o a b : ℤ) :
    (a < P ∧ b < P ∧ o = (a - b) % P) → fromM P o = fromM P a - fromM P b := Gen.glue_sub o a b

theorem glue_neg (o a : ℤ) :
    (a < P ∧ o = (0 - a) % P) → fromM P o = - fromM P a := Gen.glue_neg o a

theorem glue_mul (o a b : ℤ) :
    (a < P ∧ b < P ∧ o < P ∧ o * R ≡ a * b [ZMOD (P : ℤ)]) → fromM P o = fromM P a * fromM P b :=
  Gen.glue_mul hRP o a b

theorem glue_to (o a : ℤ) :
    (a < P ∧ o < P ∧ o * R ≡ a * R2P [ZMOD (P : ℤ)]) → fromM P o = fofint P a :=
  Gen.glue_to hRP hR2P o a

theorem glue_from (o a : ℤ) :
    (a < P ∧ 0 ≤ o ∧ o < P ∧ o * R ≡ a [ZMOD (P : ℤ)]) → fint (fromM P a) = o :=
  Gen.glue_from hRP o a

theorem glue_zero (x : ℤ) :
    (0 ≤ x ∧ x < P) → ((fromM P x = ((0 : ℤ) : F)) ↔ (x = 0)) := Gen.glue_zero hRP x

theorem glue_inj (x y : ℤ) :
    (0 ≤ x ∧ x < P ∧ 0 ≤ y ∧ y < P) → ((fromM P x = fromM P y) ↔ (x = y)) := Gen.glue_inj hRP x y

theorem fofint_mod (x y : ℤ) : ((x - y) % P = 0) → fofint P x = fofint P y := Gen.fofint_mod x y

theorem fint_range (x : F) : 0 ≤ fint x ∧ fint x < P := Gen.fint_range x

theorem fofint_fint (x : ℤ) : (0 ≤ x ∧ x < P) → fint (fofint P x) = x := Gen.fofint_fint x

theorem fofint_wide (a b c : ℤ) :
    (fofint P a + fofint P b * ((pow2 192 : ℤ) : F)) + fofint P c * ((pow2 384 : ℤ) : F)
      = fofint P (a + b * pow2 192 + c * pow2 384) := Gen.fofint_wide a b c

theorem fofint_lin (a b c : ℤ) :
    fofint P a + fofint P b * fofint P c = fofint P (a + b * c) := Gen.fofint_lin a b c

theorem fermat_inv (x : F) : fpow x ((P : ℤ) - 2) = x⁻¹ := Gen.fermat_inv two_lt_P x

theorem sr_exp : ((((P : ℕ) : ℤ) - 3) / 4).toNat = (P - 3) / 4 := by simp only [P, Secp.P]; omega

/-- rests on `Secp.sqrt_ratio_3mod4` (S1) at `v = 1` -/
theorem sqrt_ratio_one (u : F) :
    (sr_isqr u ((1 : ℤ) : F) ↔ IsSquare u) ∧
    (sr_isqr u ((1 : ℤ) : F) → sr_y u ((1 : ℤ) : F) * sr_y u ((1 : ℤ) : F) = u) := by
  have S := Secp.sqrt_ratio_3mod4 (p := P) (by norm_num [P, Secp.P]) u 1 0 0 one_ne_zero (by simp)
  obtain ⟨S1, -, -⟩ := S
  have key : sr_isqr u ((1 : ℤ) : F) ↔
      ((1 ^ 2 * (u * 1)) ^ ((P - 3) / 4) * (u * 1)) ^ 2 * 1 = u := by
    unfold sr_isqr sr_y1 sr_tv1 fpow
    rw [sr_exp, Int.cast_one, pow_two, pow_two]
  refine ⟨?_, ?_⟩
  · rw [key]; simpa using S1
  · intro h
    unfold sr_y
    rw [if_pos h]
    unfold sr_isqr at h
    rw [Int.cast_one, mul_one] at h
    rw [Int.cast_one]; exact h

/-! ### internal/scalar/contracts_verif.go -/

theorem glue_add_n (o a b : ℤ) :
    (a < N ∧ b < N ∧ o = (a + b) % N) → fromM N o = fromM N a + fromM N b := Gen.glue_add o a b

theorem glue_sub_n (o a b : ℤ) :
    (a < N ∧ b < N ∧ o = (a - b) % N) → fromM N o = fromM N a - fromM N b := Gen.glue_sub o a b

theorem glue_mul_n (o a b : ℤ) :
    (a < N ∧ b < N ∧ o < N ∧ o * R ≡ a * b [ZMOD (N : ℤ)]) → fromM N o = fromM N a * fromM N b :=
  Gen.glue_mul hRN o a b

theorem glue_to_n (o a : ℤ) :
    (a < N ∧ o < N ∧ o * R ≡ a * R2N [ZMOD (N : ℤ)]) → fromM N o = fofint N a :=
  Gen.glue_to hRN hR2N o a

theorem glue_from_n (o a : ℤ) :
    (a < N ∧ 0 ≤ o ∧ o < N ∧ o * R ≡ a [ZMOD (N : ℤ)]) → fint (fromM N a) = o :=
  Gen.glue_from hRN o a

theorem glue_zero_n (x : ℤ) :
    (0 ≤ x ∧ x < N) → ((fromM N x = ((0 : ℤ) : Fn)) ↔ (x = 0)) := Gen.glue_zero hRN x

theorem glue_inj_n (x y : ℤ) :
    (0 ≤ x ∧ x < N ∧ 0 ≤ y ∧ y < N) → ((fromM N x = fromM N y) ↔ (x = y)) := Gen.glue_inj hRN x y

theorem nofint_mod (x y : ℤ) : ((x - y) % N = 0) → fofint N x = fofint N y := Gen.fofint_mod x y

theorem nint_range (x : Fn) : 0 ≤ fint x ∧ fint x < N := Gen.fint_range x

theorem nofint_fint (x : ℤ) : (0 ≤ x ∧ x < N) → fint (fofint N x) = x := Gen.fofint_fint x

theorem nofint_wide (a b c : ℤ) :
    (fofint N a + fofint N b * ((pow2 192 : ℤ) : Fn)) + fofint N c * ((pow2 384 : ℤ) : Fn)
      = fofint N (a + b * pow2 192 + c * pow2 384) := Gen.fofint_wide a b c

theorem fermat_inv_n (x : Fn) : fpow x ((N : ℤ) - 2) = x⁻¹ := Gen.fermat_inv two_lt_N x

/-! ### contracts_verif.go: the curve -/

theorem rcb_add (X1 Y1 Z1 X2 Y2 Z2 : F) :
    (Secp.Valid X1 Y1 Z1 ∧ Secp.Valid X2 Y2 Z2) →
    Secp.Valid (Secp.rcbX X1 Y1 Z1 X2 Y2 Z2) (Secp.rcbY X1 Y1 Z1 X2 Y2 Z2) (Secp.rcbZ X1 Y1 Z1 X2 Y2 Z2) ∧
    ptf (Secp.rcbX X1 Y1 Z1 X2 Y2 Z2) (Secp.rcbY X1 Y1 Z1 X2 Y2 Z2) (Secp.rcbZ X1 Y1 Z1 X2 Y2 Z2)
      = ptf X1 Y1 Z1 + ptf X2 Y2 Z2 :=
  fun ⟨v1, v2⟩ => Secp.rcb_add hP v1 v2

theorem rcb_dbl (X Y Z : F) :
    Secp.Valid X Y Z →
    Secp.Valid (Secp.dblX X Y Z) (Secp.dblY X Y Z) (Secp.dblZ X Y Z) ∧
    ptf (Secp.dblX X Y Z) (Secp.dblY X Y Z) (Secp.dblZ X Y Z) = ptf X Y Z + ptf X Y Z :=
  fun v => Secp.rcb_dbl hP v

theorem pt_neg (X Y Z : F) :
    Secp.Valid X Y Z → Secp.Valid X (-Y) Z ∧ ptf X (-Y) Z = - ptf X Y Z :=
  fun v => Secp.pt_neg hP v

theorem pt_identity_iff (X Y Z : F) :
    Secp.Valid X Y Z → ((ptf X Y Z = 0) ↔ (Z = ((0 : ℤ) : F))) := by
  intro v; rw [Int.cast_zero]; exact Secp.pt_identity_iff hP v

theorem pt_eq_iff (X1 Y1 Z1 X2 Y2 Z2 : F) :
    (Secp.Valid X1 Y1 Z1 ∧ Secp.Valid X2 Y2 Z2) →
    ((ptf X1 Y1 Z1 = ptf X2 Y2 Z2) ↔ (X1*Z2 = X2*Z1 ∧ Y1*Z2 = Y2*Z1)) :=
  fun ⟨v1, v2⟩ => Secp.pt_eq_iff hP v1 v2

theorem gneg_zero : -(0 : G) = 0 := neg_zero

theorem valid_identity :
    Secp.Valid ((0 : ℤ) : F) ((1 : ℤ) : F) ((0 : ℤ) : F) ∧ ptf ((0 : ℤ) : F) ((1 : ℤ) : F) ((0 : ℤ) : F) = 0 := by
  rw [Int.cast_zero, Int.cast_one]
  refine ⟨⟨by ring, Or.inr (Or.inl one_ne_zero)⟩, ?_⟩
  exact Secp.pt_zero hP _ _

/-! ### contracts_verif.go: bits and scalars -/

theorem pow2_pos (k : ℤ) : 0 < pow2 k := by unfold pow2; positivity

theorem pow2_add {a b : ℤ} (ha : 0 ≤ a) (hb : 0 ≤ b) : pow2 (a + b) = pow2 a * pow2 b := by
  unfold pow2; rw [Int.toNat_add ha hb, pow_add]

theorem bit_def (v i : ℤ) : bit v i = (v / pow2 i) % 2 := rfl

theorem bit_limb (lo nk hi k c : ℤ) :
    (0 ≤ k ∧ 0 ≤ lo ∧ lo < pow2 (64*k) ∧ 0 ≤ nk ∧ nk < pow2 64 ∧ 0 ≤ hi ∧ 0 ≤ c ∧ c < 64) →
    bit (lo + nk * pow2 (64*k) + hi * pow2 (64*k + 64)) (64*k + c) = (nk / pow2 c) % 2 := by
  rintro ⟨hk, hlo0, hlo1, -, -, -, hc0, hc1⟩
  have h64k : (0 : ℤ) ≤ 64 * k := by omega
  have e1 : pow2 (64*k + 64) = pow2 (64*k) * (pow2 c * (2 * pow2 (63 - c))) := by
    have h64 : pow2 64 = pow2 (c + (1 + (63 - c))) := by congr 1; ring
    have h1 : pow2 1 = 2 := rfl
    rw [pow2_add h64k (by norm_num), h64, pow2_add hc0 (by omega), pow2_add (by norm_num) (by omega), h1]
  have e2 : pow2 (64*k + c) = pow2 (64*k) * pow2 c := pow2_add h64k hc0
  unfold bit
  rw [e1, e2]
  have hA := pow2_pos (64*k)
  have hC := pow2_pos c
  set A := pow2 (64*k)
  set C := pow2 c
  set E := pow2 (63 - c)
  rw [← Int.ediv_ediv_of_nonneg hA.le]
  have s1 : (lo + nk * A + hi * (A * (C * (2 * E)))) / A = nk + hi * (C * (2 * E)) := by
    have : lo + nk * A + hi * (A * (C * (2 * E))) = lo + A * (nk + hi * (C * (2 * E))) := by ring
    rw [this, Int.add_mul_ediv_left _ _ hA.ne', Int.ediv_eq_zero_of_lt hlo0 hlo1, zero_add]
  rw [s1]
  have s2 : (nk + hi * (C * (2 * E))) / C = nk / C + hi * (2 * E) := by
    have : nk + hi * (C * (2 * E)) = nk + C * (hi * (2 * E)) := by ring
    rw [this, Int.add_mul_ediv_left _ _ hC.ne']
  rw [s2]
  have : nk / C + hi * (2 * E) = nk / C + (hi * E) * 2 := by ring
  rw [this, Int.add_mul_emod_self_right]

theorem hi_step (v i : ℤ) :
    0 ≤ i → (hi v i = 2 * hi v (i + 1) + bit v i ∧ 0 ≤ bit v i ∧ bit v i ≤ 1) := by
  intro h
  unfold hi bit
  have e : pow2 (i + 1) = pow2 i * 2 := by rw [pow2_add h (by norm_num)]; rfl
  rw [e, ← Int.ediv_ediv_of_nonneg (pow2_pos i).le]
  generalize v / pow2 i = q
  omega

theorem hi_top (v : ℤ) : (0 ≤ v ∧ v < pow2 256) → hi v 256 = 0 := by
  rintro ⟨h0, h1⟩
  exact Int.ediv_eq_zero_of_lt h0 h1

theorem hi_zero (v : ℤ) : hi v 0 = v := by
  unfold hi pow2; simp

theorem smul_add (a b : ℤ) (g : G) : a • g + b • g = (a + b) • g := (add_smul a b g).symm

theorem smul_zero (g : G) : (0 : ℤ) • g = 0 := zero_smul ℤ g

theorem smul_one (g : G) : (1 : ℤ) • g = g := one_smul ℤ g

/-! ### contracts_verif.go: affine points, encoding -/

theorem pt_of_affine (x y : F) :
    y*y = x*x*x + ((7 : ℤ) : F) → Secp.Valid x y ((1 : ℤ) : F) ∧ ptf x y ((1 : ℤ) : F) = aff x y := by
  intro e
  have e' : y^2 = x^3 + 7 := by push_cast at e; linear_combination e
  rw [Int.cast_one]
  refine ⟨Secp.valid_of_affine x y e', ?_⟩
  unfold ptf aff
  rw [dif_pos e', Secp.pt_of_affine hP x y e']

theorem aff_coords (X Y Z : F) :
    (Secp.Valid X Y Z ∧ Z ≠ ((0 : ℤ) : F)) →
    affx (ptf X Y Z) = Z⁻¹ * X ∧ affy (ptf X Y Z) = Z⁻¹ * Y := by
  rintro ⟨v, hz⟩
  rw [Int.cast_zero] at hz
  unfold ptf
  rw [Secp.pt_aff hP hz (Secp.valid_aff v hz)]
  unfold Secp.mkPt
  exact ⟨div_eq_inv_mul X Z, div_eq_inv_mul Y Z⟩

theorem aff_of (x y : F) :
    y*y = secp_poly x → affx (aff x y) = x ∧ affy (aff x y) = y ∧ aff x y ≠ 0 := by
  intro e
  have e' : y^2 = x^3 + 7 := by unfold secp_poly at e; linear_combination e
  unfold aff
  rw [dif_pos e']
  refine ⟨rfl, rfl, Secp.mkPt_ne_zero hP e'⟩

theorem neg_parity (y : F) : y ≠ ((0 : ℤ) : F) → fint (-y) % 2 = 1 - fint y % 2 := by
  intro hy
  rw [Int.cast_zero] at hy
  unfold fint
  have hv : (-y).val = P - y.val := by rw [ZMod.neg_val]; simp [hy]
  have hlt : y.val < P := ZMod.val_lt y
  have hpos : 0 < y.val := Nat.pos_of_ne_zero (by simpa using hy)
  have hodd : P % 2 = 1 := by norm_num [P, Secp.P]
  rw [hv]
  generalize y.val = n at *
  omega

theorem fneg_sq (y : F) : (-y) * (-y) = y * y := neg_mul_neg y y

theorem poly_nonzero (x : F) : secp_poly x ≠ ((0 : ℤ) : F) := by
  rw [Int.cast_zero]
  intro h
  exact hP.nocube x (by unfold secp_poly at h; linear_combination h)

theorem sq_zero (y : F) : (y * y = ((0 : ℤ) : F)) ↔ (y = ((0 : ℤ) : F)) := by
  rw [Int.cast_zero]; exact mul_self_eq_zero

/-! ### contracts_verif.go: map to curve

`sswu_on_curve` and `iso_valid` are in `SecpSMT2.lean` (they need `SecpM`/`SecpI`, which clash with `SecpN`).
`iso_hom_chord` is in `SecpSMT3.lean` (imports this file). -/

theorem neg_zero_iff (y : F) : (-y = ((0 : ℤ) : F)) ↔ (y = ((0 : ℤ) : F)) := by
  rw [Int.cast_zero]; exact neg_eq_zero

/-- The chord sum of two points of E' with different x is on E' (holds over any field, for any A', B'):
with `l (x2 - x1) = y2 - y1`, `x3 = l² - x1 - x2`, `y3 = l (x1 - x3) - y1`,
`(x2 - x1) (y3² - x3³ - A x3 - B) = (x2 - x3) e1 + (x3 - x1) e2 + ...` where `e_i` are the curve equations. -/
theorem chord_on_curve (x2 y2 x1 y1 : F) :
    (onE3 x2 y2 ∧ onE3 x1 y1 ∧ x1 ≠ x2) → onE3 (chord_x x2 y2 x1 y1) (chord_y x2 y2 x1 y1) := by
  rintro ⟨h2, h1, hne⟩
  have hd : x2 - x1 ≠ 0 := sub_ne_zero.2 (Ne.symm hne)
  have hl : chord_l x2 y2 x1 y1 * (x2 - x1) = y2 - y1 := by
    unfold chord_l; rw [mul_assoc, inv_mul_cancel₀ hd, mul_one]
  unfold onE3 at h1 h2 ⊢
  unfold chord_y chord_x
  generalize chord_l x2 y2 x1 y1 = l at hl ⊢
  generalize ((AC : ℤ) : F) = A at h1 h2 ⊢
  generalize ((BC : ℤ) : F) = B at h1 h2 ⊢
  have key : (x2 - x1) * ((l * (x1 - (l*l - x1 - x2)) - y1) * (l * (x1 - (l*l - x1 - x2)) - y1)
      - ((l*l - x1 - x2) * (l*l - x1 - x2) * (l*l - x1 - x2) + A * (l*l - x1 - x2) + B)) = 0 := by
    linear_combination (x2 - (l*l - x1 - x2)) * h1 + ((l*l - x1 - x2) - x1) * h2
      + ((l*l - x1 - x2) - x1) * (y2 + y1 + l * (x2 - x1)) * hl
  exact sub_eq_zero.1 ((mul_eq_zero.1 key).resolve_left hd)

/-! ### contracts_verif.go: ghost entropy stream

`//@ declare firstnz(Int) Int` is uninterpreted on the SMT side and `rndblock` is the (arbitrary) ghost stream of
blocks, so `firstnz_step` is an axiom about `firstnz`.  It is sound iff for every stream a function with that
property exists; here it is: the index of the first block at or after `j` that is non-zero modulo `N`
(`0` if there is none; any constant would do).  The stream is a parameter of the definition and of the theorem. -/

open Classical in
/-- `firstnz(j)`: the least `i ≥ j` with `nofint(rndblock(i)) != Fn(0)`, or `0` if there is none -/
noncomputable def firstnz (rndblock : ℤ → ℤ) (j : ℤ) : ℤ :=
  if h : ∃ n : ℕ, fofint N (rndblock (j + n)) ≠ ((0 : ℤ) : Fn) then j + (Nat.find h : ℕ) else 0

theorem firstnz_step (rndblock : ℤ → ℤ) (j : ℤ) :
    firstnz rndblock j =
      if fofint N (rndblock j) ≠ ((0 : ℤ) : Fn) then j else firstnz rndblock (j + 1) := by
  classical
  by_cases h0 : fofint N (rndblock j) ≠ ((0 : ℤ) : Fn)
  · rw [if_pos h0]
    have h : ∃ n : ℕ, fofint N (rndblock (j + n)) ≠ ((0 : ℤ) : Fn) := ⟨0, by simpa using h0⟩
    unfold firstnz
    rw [dif_pos h]
    have : Nat.find h = 0 := (Nat.find_eq_zero h).2 (by simpa using h0)
    rw [this]; simp
  · rw [if_neg h0]
    unfold firstnz
    by_cases h : ∃ n : ℕ, fofint N (rndblock (j + n)) ≠ ((0 : ℤ) : Fn)
    · have h' : ∃ n : ℕ, fofint N (rndblock (j + 1 + n)) ≠ ((0 : ℤ) : Fn) := by
        obtain ⟨n, hn⟩ := h
        cases n with
        | zero => exact absurd (by simpa using hn) h0
        | succ k =>
          refine ⟨k, ?_⟩
          have e : j + 1 + (k : ℤ) = j + ((k + 1 : ℕ) : ℤ) := by push_cast; ring
          rw [e]; exact hn
      rw [dif_pos h, dif_pos h']
      have : Nat.find h = Nat.find h' + 1 := by
        rw [Nat.find_eq_iff]
        refine ⟨?_, ?_⟩
        · have := Nat.find_spec h'
          have e : j + ((Nat.find h' + 1 : ℕ) : ℤ) = j + 1 + (Nat.find h' : ℤ) := by push_cast; ring
          rw [e]; exact this
        · intro n hn hc
          cases n with
          | zero => exact h0 (by simpa using hc)
          | succ k =>
            have e : j + ((k + 1 : ℕ) : ℤ) = j + 1 + (k : ℤ) := by push_cast; ring
            rw [e] at hc
            exact Nat.find_min h' (by omega) hc
      rw [this]; push_cast; ring
    · have h' : ¬ ∃ n : ℕ, fofint N (rndblock (j + 1 + n)) ≠ ((0 : ℤ) : Fn) := by
        rintro ⟨n, hn⟩
        refine h ⟨n + 1, ?_⟩
        have e : j + ((n + 1 : ℕ) : ℤ) = j + 1 + (n : ℤ) := by push_cast; ring
        rw [e]; exact hn
      rw [dif_neg h, dif_neg h']

/-! ### /verif/clients/*.go: lemma programs (round trips, bit expansion) -/

/-- two affine points with the same x: `y² = y'²`, so `y = y'` or `y = -y'`; in the second case either `y' = 0 = y`
or (`neg_parity`, `P` odd) the parities of `fint y`, `fint y'` differ. -/
theorem same_x_parity (g h : G) :
    (g ≠ 0 ∧ h ≠ 0 ∧ affx g = affx h ∧ fint (affy g) % 2 = fint (affy h) % 2) → g = h := by
  rintro ⟨hg, hh, hx, hp⟩
  cases g with
  | zero => exact absurd rfl hg
  | some x y n =>
    cases h with
    | zero => exact absurd rfl hh
    | some x' y' n' =>
      simp only [affx, affy] at hx hp
      subst hx
      have e1 : y^2 = x^3 + 7 := (Secp.eqn_iff x y).1 n.1
      have e2 : y'^2 = x^3 + 7 := (Secp.eqn_iff x y').1 n'.1
      have hm : (y - y') * (y + y') = 0 := by linear_combination e1 - e2
      rcases mul_eq_zero.1 hm with h1 | h1
      · have hy : y = y' := sub_eq_zero.1 h1
        subst hy; rfl
      · have hy : y = -y' := eq_neg_of_add_eq_zero_left h1
        by_cases h0 : y' = 0
        · have hy0 : y = y' := by rw [hy, h0, neg_zero]
          subst hy0; rfl
        · exfalso
          have np := neg_parity y' (by rw [Int.cast_zero]; exact h0)
          rw [← hy] at np
          omega

theorem same_xy (g h : G) :
    (g ≠ 0 ∧ h ≠ 0 ∧ affx g = affx h ∧ affy g = affy h) → g = h := by
  rintro ⟨hg, hh, hx, hy⟩
  cases g with
  | zero => exact absurd rfl hg
  | some x y n =>
    cases h with
    | zero => exact absurd rfl hh
    | some x' y' n' =>
      simp only [affx, affy] at hx hy
      subst hx; subst hy; rfl

theorem aff_on_curve (g : G) :
    g ≠ 0 → affy g * affy g = secp_poly (affx g) ∧ g = aff (affx g) (affy g) := by
  intro hg
  cases g with
  | zero => exact absurd rfl hg
  | some x y n =>
    have e : y^2 = x^3 + 7 := (Secp.eqn_iff x y).1 n.1
    simp only [affx, affy]
    refine ⟨by unfold secp_poly; linear_combination e, ?_⟩
    unfold aff
    rw [dif_pos e]
    rfl

theorem issq_of_sq (y v : F) : y*y = v → IsSquare v := fun h => ⟨y, h.symm⟩

theorem fofint_eq (n : ℤ) (a : F) : n = fint a → fofint P n = a := by
  rintro rfl
  have : NeZero P := ⟨(Fact.out : P.Prime).ne_zero⟩
  unfold fofint fint
  rw [Int.cast_natCast, ZMod.natCast_zmod_val]

/-- the partial sums of the binary expansion: `bitsumf(v, n) = v mod 2^n` (every `v`, also negative) -/
theorem bitsumf_eq (v : ℤ) (n : ℕ) : bitsumf v (n : ℤ) = v % 2 ^ n := by
  unfold bitsumf
  rw [Int.toNat_natCast]
  induction n with
  | zero => simp
  | succ k ih =>
    rw [Finset.sum_range_succ, ih]
    unfold bit pow2
    rw [Int.toNat_natCast, pow_succ]
    have hA : (0 : ℤ) < 2 ^ k := by positivity
    have h1 : v % (2 ^ k * 2) = v - (2 ^ k * 2) * (v / 2 ^ k / 2) := by
      rw [Int.ediv_ediv_of_nonneg hA.le]; exact Int.emod_def _ _
    have h2 : v % 2 ^ k = v - 2 ^ k * (v / 2 ^ k) := Int.emod_def _ _
    have h3 : v / 2 ^ k % 2 = v / 2 ^ k - 2 * (v / 2 ^ k / 2) := Int.emod_def _ _
    linear_combination h2 - h1 + (2 : ℤ) ^ k * h3

theorem bits_total (v : ℤ) : (0 ≤ v ∧ v < pow2 256) → bitsumf v 256 = v := by
  rintro ⟨h0, h1⟩
  have e : pow2 256 = 2 ^ 256 := rfl
  rw [e] at h1
  have s := bitsumf_eq v 256
  rw [Int.emod_eq_of_lt h0 h1] at s
  exact s

theorem add_neg_cancel (p q : G) : p + q + -q = p := add_neg_cancel_right p q

theorem ninv_mul (x : Fn) : x ≠ ((0 : ℤ) : Fn) → x⁻¹ * x = ((1 : ℤ) : Fn) := by
  intro h
  rw [Int.cast_zero] at h
  rw [Int.cast_one]
  exact inv_mul_cancel₀ h

/-- `smul_gzero(k)`: `smul(k, gzero()) == gzero()` (not to be confused with `SecpSMT.smul_zero` above, the lemma `0 • g = 0`) -/
theorem smul_gzero (k : ℤ) : k • (0 : G) = 0 := zsmul_zero k

end SecpSMT
