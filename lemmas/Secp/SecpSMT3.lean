import SecpSMT

/-!
# `iso_hom_chord`: the RFC 9380 E.1 3-isogeny E' → secp256k1 is additive on chord sums

Proves the lemma line `//@ lemma iso_hom_chord` of `/repo/contracts_verif.go` (statement:
`SecpSMT.iso_hom_chord_statement` of `SecpSMT.lean`), which used to be the one ASSUMED lemma.

Mathematics.  Let `x0 = 6w` be the x-coordinate of the kernel of the isogeny (`iso_xden x = (x - x0)²`,
`iso_yden x = (x - x0)³`).  In the coordinate `t = x - x0` everything is a one-parameter family with small integer
coefficients (the isogeny is Vélu's formula for the kernel `{O, (0, ±√(2w³))}` followed by the scaling `u = 1/3`):

    E' :  y² = t³ + 18w t² - 12w² t + 2w³   (`gT`;  in x:  A' = -120w², B' = 506w³)
    E  :  Y² = X³ + 2w³                      (2w³ = 7, `w3`)
    X = (t³ + 6w t² - 24w² t + 8w³) / (9 t²),   Y = y (t³ + 24w² t - 16w³) / (27 t³)      (`XT`, `YT`)

and the only facts about the 256-bit constants `AC, BC, K10 .. K42` that are used are the 16 closed identities
`AC = -120w²`, `BC = 506w³`, `2w³ = 7`, `K21 = -12w`, … (`AC_w` .. `K30_w`, each `P ∣ integer` by `norm_num`).

* No affine point of E'(F_P) is in the kernel: `t = 0` forces `y² = 2w³ = 7`, and 7 is not a square modulo `P`
  (`seven_nonsq`, Euler's criterion evaluated by `reduce_mod_char; decide`).  So `iso_id` never holds on E' and all
  the degenerate cases of the statement (an image equal to the identity) are vacuous (`not_kernel`, `not_iso_id`).
* Collinear points go to collinear points: if `(t, l t + m)` is on E', its image is on the line `Y = L X + M` with
  `L = NL / (3 s)`, `M = NM / (27 s)`, `s = m² - 2w³` (`line_T`; a degree-4 identity in `t`, cofactor linear in `t`).
* With `t1, t2, t3` the three roots of `gT t - (l t + m)²` (Vieta: `vieta`), `X(t1) + X(t2) + X(t3) = L²` (`sum_T`).
* `X(t2) ≠ X(t1)` when `t2 ≠ t1` (`X_ne`): the numerator of `X(t2) - X(t1)` is `(t2 - t1) H`, and `H = 0` would make
  `7 (4 y1)²` a square (`Hdisc`), `y1 ≠ 0` because `-7` is not a cube (`y_ne`).
* Hence Mathlib's chord formula (`Affine.Point.add_of_X_ne`) applies to the two images and gives slope `L`,
  `X = L² - X1 - X2 = X(t3)`, `Y = -(L X(t3) + M) = Y(t3, -(l t3 + m))`, the image of the chord sum (`hom_T`).

The certificates were found with sympy (`scripts/isohom.py`); Lean re-checks them by `ring` / `linear_combination`.
-/

open WeierstrassCurve
set_option linter.unusedSectionVars false
set_option linter.unusedVariables false

/-! ## 1. Algebra over an arbitrary field: Vélu's 3-isogeny in the coordinate `t = x - x0` -/

namespace SecpSMT.Iso
variable {K : Type*} [Field K]

/-- E' in the coordinate `t = x - 6w`: `y² = gT w t` -/
def gT (w t : K) : K := t^3 + 18*w*t^2 - 12*w^2*t + 2*w^3
def xnT (w t : K) : K := t^3 + 6*w*t^2 - 24*w^2*t + 8*w^3
def ynT (w t : K) : K := t^3 + 24*w^2*t - 16*w^3
def XT (w t : K) : K := xnT w t / (9*t^2)
def YT (w t y : K) : K := y * ynT w t / (27*t^3)
def NL (w l m : K) : K := l*m^2 + 6*l*w^3 + 24*m*w^2
def NM (w l m : K) : K := -8*l^3*w^3 - 24*l^2*m*w^2 - 6*l*m^2*w + 108*l*w^4 + m^3 + 270*m*w^3

theorem nine_ne (h3 : (3:K) ≠ 0) : (9:K) ≠ 0 := by
  have : (9:K) = 3^2 := by norm_num
  rw [this]; exact pow_ne_zero _ h3
theorem tws_ne (h3 : (3:K) ≠ 0) : (27:K) ≠ 0 := by
  have : (27:K) = 3^3 := by norm_num
  rw [this]; exact pow_ne_zero _ h3

theorem YT_neg (w t y : K) : YT w t (-y) = - YT w t y := by unfold YT; ring

/-- the image of a point of E' (not in the kernel) is on `Y² = X³ + 2w³` -/
theorem on_curve_T (h3 : (3:K) ≠ 0) (w t y : K) (ht : t ≠ 0) (e : y^2 = gT w t) :
    (YT w t y)^2 = (XT w t)^3 + 2*w^3 := by
  unfold YT XT
  unfold gT at e
  unfold xnT ynT
  have h9 := nine_ne h3
  have h27 := tws_ne h3
  field_simp
  linear_combination (729*(t^3 + 24*w^2*t - 16*w^3)^2) * e

/-- the images of the points of E' on the line `y = l t + m` lie on the line `Y = L X + M` -/
theorem line_T (h3 : (3:K) ≠ 0) (w l m t : K) (ht : t ≠ 0) (hs : m^2 - 2*w^3 ≠ 0)
    (e : (l*t+m)^2 = gT w t) :
    YT w t (l*t+m) = NL w l m / (3*(m^2 - 2*w^3)) * XT w t + NM w l m / (27*(m^2 - 2*w^3)) := by
  have key : (l*t+m) * ynT w t * (m^2 - 2*w^3) = NL w l m * t * xnT w t + NM w l m * t^3 := by
    unfold gT at e
    unfold ynT xnT NL NM
    linear_combination (-(16*m*w^3 + t*(-8*l*w^3 - 24*m*w^2))) * e
  unfold YT XT
  generalize ynT w t = yn at key ⊢
  generalize xnT w t = xn at key ⊢
  generalize NL w l m = nl at key ⊢
  generalize NM w l m = nm at key ⊢
  generalize m^2 - 2*w^3 = s at key hs ⊢
  have h9 := nine_ne h3
  have h27 := tws_ne h3
  field_simp
  linear_combination 27 * key

theorem sum_S (w l m s1 s2 s3 : K) (v1 : s1 = l^2 - 18*w) (v2 : s2 = -12*w^2 - 2*l*m) (v3 : s3 = m^2 - 2*w^3) :
    (s1 + 18*w)*s3^2 - 24*w^2*s3*s2 + 8*w^3*(s2^2 - 2*s1*s3) = (NL w l m)^2 := by
  subst v1 v2 v3; unfold NL; ring

/-- Vieta on the image curve: `X1 + X2 + X3 = L²` -/
theorem sum_T (h3 : (3:K) ≠ 0) (w l m t1 t2 t3 : K) (h1 : t1 ≠ 0) (h2 : t2 ≠ 0) (h3' : t3 ≠ 0)
    (v1 : t1+t2+t3 = l^2 - 18*w) (v2 : t1*t2+t1*t3+t2*t3 = -12*w^2 - 2*l*m) (v3 : t1*t2*t3 = m^2 - 2*w^3) :
    XT w t1 + XT w t2 + XT w t3 = (NL w l m / (3*(m^2 - 2*w^3)))^2 := by
  have key := sum_S w l m _ _ _ v1 v2 v3
  rw [← v3]
  unfold XT xnT
  generalize NL w l m = nl at key ⊢
  have h9 := nine_ne h3
  field_simp
  linear_combination 9 * key

/-- Vieta on E': the chord through `(t1, y1)`, `(t2, y2)` with slope `l` and intercept `m = y1 - l t1` -/
theorem vieta (w t1 y1 t2 y2 l : K) (e1 : y1^2 = gT w t1) (e2 : y2^2 = gT w t2) (hd : t2 - t1 ≠ 0)
    (el : l*(t2 - t1) = y2 - y1) :
    t1*t2 + t1*(l^2 - t1 - t2 - 18*w) + t2*(l^2 - t1 - t2 - 18*w) = -12*w^2 - 2*l*(y1 - l*t1) ∧
    t1*t2*(l^2 - t1 - t2 - 18*w) = (y1 - l*t1)^2 - 2*w^3 := by
  unfold gT at e1 e2
  have v2 : t1*t2 + t1*(l^2 - t1 - t2 - 18*w) + t2*(l^2 - t1 - t2 - 18*w) = -12*w^2 - 2*l*(y1 - l*t1) := by
    have key : (t2 - t1) * ((t1*t2 + t1*(l^2 - t1 - t2 - 18*w) + t2*(l^2 - t1 - t2 - 18*w))
        - (-12*w^2 - 2*l*(y1 - l*t1))) = 0 := by
      linear_combination (-1) * e1 + e2 + (l*t2 + (y1 - l*t1) + y2) * el
    exact sub_eq_zero.1 ((mul_eq_zero.1 key).resolve_left hd)
  refine ⟨v2, ?_⟩
  linear_combination (-1) * e1 + t1 * v2

/-- `X(t2) - X(t1) = (t2 - t1) H / (9 t1² t2²)` and `H = 0` forces `2w³ y1²` to be a square -/
theorem Xdiff (w t1 t2 : K) :
    xnT w t2 * t1^2 - xnT w t1 * t2^2
      = (t2 - t1) * (t1^2*t2^2 + 24*w^2*t1*t2 - 8*w^3*(t1+t2)) := by
  unfold xnT; ring

theorem Hdisc (w t1 y1 t2 : K) (e1 : y1^2 = gT w t1) :
    (2*t1^2*t2 + 24*w^2*t1 - 8*w^3)^2
      = 4*t1^2*(t1^2*t2^2 + 24*w^2*t1*t2 - 8*w^3*(t1+t2)) + (2*w^3) * (4*y1)^2 := by
  unfold gT at e1
  linear_combination (-32*w^3) * e1

end SecpSMT.Iso

/-! ## 2. The concrete isogeny -/

namespace SecpSMT
open Iso

/-- `w0 = x0 / 6`, `x0` the x-coordinate of the kernel of the isogeny; `2 w³ = 7` -/
def W0C : ℤ := 0x4186da16250a5852d604f118e863a7ce54c3b70cfd62cfdb04e7237791c9a04e
def w0 : F := ((W0C : ℤ) : F)

theorem castP {a : ℤ} (h : (P : ℤ) ∣ a) : ((a : ℤ) : F) = 0 :=
  (ZMod.intCast_zmod_eq_zero_iff_dvd _ _).2 h

theorem w3 : 2 * w0^3 = 7 := by
  have h : (((2 * W0C^3 - 7 : ℤ)) : F) = 0 := castP (by norm_num [W0C, P, Secp.P])
  unfold w0; push_cast at h; linear_combination h
theorem AC_w : ((AC : ℤ) : F) = -120 * w0^2 := by
  have h : (((AC + 120 * W0C^2 : ℤ)) : F) = 0 := castP (by norm_num [AC, W0C, P, Secp.P])
  unfold w0; push_cast at h; linear_combination h
theorem BC_w : ((BC : ℤ) : F) = 506 * w0^3 := by
  have h : (((BC - 506 * W0C^3 : ℤ)) : F) = 0 := castP (by norm_num [BC, W0C, P, Secp.P])
  unfold w0; push_cast at h; linear_combination h
theorem K21_w : ((K21 : ℤ) : F) = -12 * w0 := by
  have h : (((K21 + 12 * W0C : ℤ)) : F) = 0 := castP (by norm_num [K21, W0C, P, Secp.P])
  unfold w0; push_cast at h; linear_combination h
theorem K20_w : ((K20 : ℤ) : F) = 36 * w0^2 := by
  have h : (((K20 - 36 * W0C^2 : ℤ)) : F) = 0 := castP (by norm_num [K20, W0C, P, Secp.P])
  unfold w0; push_cast at h; linear_combination h
theorem K42_w : ((K42 : ℤ) : F) = -18 * w0 := by
  have h : (((K42 + 18 * W0C : ℤ)) : F) = 0 := castP (by norm_num [K42, W0C, P, Secp.P])
  unfold w0; push_cast at h; linear_combination h
theorem K41_w : ((K41 : ℤ) : F) = 108 * w0^2 := by
  have h : (((K41 - 108 * W0C^2 : ℤ)) : F) = 0 := castP (by norm_num [K41, W0C, P, Secp.P])
  unfold w0; push_cast at h; linear_combination h
theorem K40_w : ((K40 : ℤ) : F) = -216 * w0^3 := by
  have h : (((K40 + 216 * W0C^3 : ℤ)) : F) = 0 := castP (by norm_num [K40, W0C, P, Secp.P])
  unfold w0; push_cast at h; linear_combination h
theorem K13_w : 9 * ((K13 : ℤ) : F) = 1 := by
  have h : (((9 * K13 - 1 : ℤ)) : F) = 0 := castP (by norm_num [K13, W0C, P, Secp.P])
  push_cast at h; linear_combination h
theorem K12_w : 9 * ((K12 : ℤ) : F) = -12 * w0 := by
  have h : (((9 * K12 + 12 * W0C : ℤ)) : F) = 0 := castP (by norm_num [K12, W0C, P, Secp.P])
  unfold w0; push_cast at h; linear_combination h
theorem K11_w : 9 * ((K11 : ℤ) : F) = 12 * w0^2 := by
  have h : (((9 * K11 - 12 * W0C^2 : ℤ)) : F) = 0 := castP (by norm_num [K11, W0C, P, Secp.P])
  unfold w0; push_cast at h; linear_combination h
theorem K10_w : 9 * ((K10 : ℤ) : F) = 152 * w0^3 := by
  have h : (((9 * K10 - 152 * W0C^3 : ℤ)) : F) = 0 := castP (by norm_num [K10, W0C, P, Secp.P])
  unfold w0; push_cast at h; linear_combination h
theorem K33_w : 27 * ((K33 : ℤ) : F) = 1 := by
  have h : (((27 * K33 - 1 : ℤ)) : F) = 0 := castP (by norm_num [K33, W0C, P, Secp.P])
  push_cast at h; linear_combination h
theorem K32_w : 27 * ((K32 : ℤ) : F) = -18 * w0 := by
  have h : (((27 * K32 + 18 * W0C : ℤ)) : F) = 0 := castP (by norm_num [K32, W0C, P, Secp.P])
  unfold w0; push_cast at h; linear_combination h
theorem K31_w : 27 * ((K31 : ℤ) : F) = 132 * w0^2 := by
  have h : (((27 * K31 - 132 * W0C^2 : ℤ)) : F) = 0 := castP (by norm_num [K31, W0C, P, Secp.P])
  unfold w0; push_cast at h; linear_combination h
theorem K30_w : 27 * ((K30 : ℤ) : F) = -376 * w0^3 := by
  have h : (((27 * K30 + 376 * W0C^3 : ℤ)) : F) = 0 := castP (by norm_num [K30, W0C, P, Secp.P])
  unfold w0; push_cast at h; linear_combination h

theorem three_ne : (3 : F) ≠ 0 := hP.three

theorem iso_xden_t (x : F) : iso_xden x = (x - 6*w0)^2 := by
  unfold iso_xden; rw [K21_w, K20_w]; ring
theorem iso_yden_t (x : F) : iso_yden x = (x - 6*w0)^3 := by
  unfold iso_yden; rw [K42_w, K41_w, K40_w]; ring
theorem iso_xnum_t (x : F) : 9 * iso_xnum x = xnT w0 (x - 6*w0) := by
  unfold iso_xnum xnT
  linear_combination (x*x*x) * K13_w + (x*x) * K12_w + x * K11_w + K10_w
theorem iso_ynum_t (x : F) : 27 * iso_ynum x = ynT w0 (x - 6*w0) := by
  unfold iso_ynum ynT
  linear_combination (x*x*x) * K33_w + (x*x) * K32_w + x * K31_w + K30_w
theorem onE3_t {x y : F} (h : onE3 x y) : y^2 = gT w0 (x - 6*w0) := by
  unfold onE3 at h; rw [AC_w, BC_w] at h; unfold gT; linear_combination h

/-- 7 is not a square modulo P (Euler's criterion) -/
theorem seven_pow : (7 : ZMod P)^(57896044618658097711785492504343953926634992332820282019728792003954417335831 : ℕ) ≠ 1 := by
  reduce_mod_char
  decide
theorem P_half : P - 1 = 2 * 57896044618658097711785492504343953926634992332820282019728792003954417335831 := by
  norm_num [P, Secp.P]
theorem seven_nonsq (y : F) : y^2 ≠ 7 := by
  intro h
  have y0 : y ≠ 0 := by
    rintro rfl
    have : (7 : F) = 0 := by rw [← h]; ring
    exact hP.nocube 0 (by rw [this]; ring)
  have f := ZMod.pow_card_sub_one_eq_one y0
  rw [P_half, pow_mul, h] at f
  exact seven_pow f

/-- no affine point of E' over `ZMod P` is in the kernel of the isogeny: the kernel points `(6w, ±√7)` are not rational -/
theorem not_kernel {x y : F} (h : onE3 x y) : x - 6*w0 ≠ 0 := by
  intro ht
  have e := onE3_t h
  rw [ht] at e
  unfold gT at e
  exact seven_nonsq y (by linear_combination e + w3)

theorem not_iso_id {x : F} (ht : x - 6*w0 ≠ 0) : ¬ iso_id x := by
  unfold iso_id
  rw [iso_xden_t, iso_yden_t, Int.cast_zero]
  rintro (h | h)
  · exact pow_ne_zero 2 ht (inv_eq_zero.1 h)
  · exact pow_ne_zero 3 ht h

theorem iso_x_t {x : F} (ht : x - 6*w0 ≠ 0) : iso_x x = XT w0 (x - 6*w0) := by
  unfold iso_x XT
  rw [if_neg (not_iso_id ht), iso_xden_t, ← iso_xnum_t]
  have h9 := nine_ne three_ne
  field_simp
theorem iso_y_t {x : F} (y : F) (ht : x - 6*w0 ≠ 0) : iso_y x y = YT w0 (x - 6*w0) y := by
  unfold iso_y YT
  rw [if_neg (not_iso_id ht), iso_yden_t, ← iso_ynum_t]
  have h27 := tws_ne three_ne
  field_simp
theorem iso_z_t {x : F} (ht : x - 6*w0 ≠ 0) : iso_z x = 1 := by
  unfold iso_z
  rw [if_neg (not_iso_id ht), Int.cast_one]

theorem iso_curve {x y : F} (h : onE3 x y) : (YT w0 (x - 6*w0) y)^2 = (XT w0 (x - 6*w0))^3 + 7 := by
  rw [on_curve_T three_ne w0 _ y (not_kernel h) (onE3_t h), w3]

/-- on E' the isogeny is the affine map `(x, y) ↦ (XT, YT)` -/
theorem iso_pt {x y : F} (h : onE3 x y) :
    ptf (iso_x x) (iso_y x y) (iso_z x) = Secp.mkPt hP (XT w0 (x - 6*w0)) (YT w0 (x - 6*w0) y) (iso_curve h) := by
  have ht := not_kernel h
  rw [iso_x_t ht, iso_y_t y ht, iso_z_t ht]
  unfold ptf
  rw [Secp.pt_of_affine hP _ _ (iso_curve h)]

theorem y_ne {x y : F} (h : onE3 x y) : y ≠ 0 := by
  rintro rfl
  have e := iso_curve h
  have : YT w0 (x - 6*w0) 0 = 0 := by unfold YT; ring
  rw [this] at e
  exact hP.nocube (XT w0 (x - 6*w0)) (by linear_combination -e)

/-- the isogeny is injective on x-coordinates up to sign: different x on E' give different X on E -/
theorem X_ne {x1 y1 x2 y2 : F} (h1 : onE3 x1 y1) (h2 : onE3 x2 y2) (hne : x1 ≠ x2) :
    XT w0 (x2 - 6*w0) ≠ XT w0 (x1 - 6*w0) := by
  have ht1 := not_kernel h1
  have ht2 := not_kernel h2
  have e1 := onE3_t h1
  have hy := y_ne h1
  have hd : (x2 - 6*w0) - (x1 - 6*w0) ≠ 0 := by
    intro h; exact hne (by linear_combination -h)
  generalize x1 - 6*w0 = t1 at ht1 e1 hd ⊢
  generalize x2 - 6*w0 = t2 at ht2 hd ⊢
  intro hX
  unfold XT at hX
  have h9 := nine_ne three_ne
  rw [div_eq_div_iff (mul_ne_zero h9 (pow_ne_zero 2 ht2)) (mul_ne_zero h9 (pow_ne_zero 2 ht1))] at hX
  have hH0 : (t2 - t1) * (t1^2*t2^2 + 24*w0^2*t1*t2 - 8*w0^3*(t1+t2)) = 0 := by
    rw [← Xdiff]
    have : (9:F) * (xnT w0 t2 * t1^2 - xnT w0 t1 * t2^2) = 0 := by linear_combination hX
    exact (mul_eq_zero.1 this).resolve_left h9
  have hH := (mul_eq_zero.1 hH0).resolve_left hd
  have hD := Hdisc w0 t1 y1 t2 e1
  rw [hH, w3] at hD
  have h4 : (4:F) * y1 ≠ 0 := by
    have : (4:F) = 2^2 := by norm_num
    rw [this]; exact mul_ne_zero (pow_ne_zero _ hP.two) hy
  apply seven_nonsq ((2*t1^2*t2 + 24*w0^2*t1 - 8*w0^3) / (4*y1))
  rw [div_pow, div_eq_iff (pow_ne_zero 2 h4)]
  linear_combination hD

/-! ## 3. The lemmas -/

/-- additivity in the coordinates `t = x - 6w`: the chord sum `(t3, y3)` of `(t2, y2)`, `(t1, y1)` on E' is mapped to
the sum of the images.  `l` is the slope of the chord, `m = y1 - l t1` its intercept; the three image points lie on
`Y = L X + M` (`line_T`), `X1 + X2 + X3 = L²` (`sum_T`), and `X2 ≠ X1`, so Mathlib's chord formula applies. -/
theorem hom_T (t1 y1 t2 y2 t3 y3 l : F)
    (E1 : (YT w0 t1 y1)^2 = (XT w0 t1)^3 + 7) (E2 : (YT w0 t2 y2)^2 = (XT w0 t2)^3 + 7)
    (E3 : (YT w0 t3 y3)^2 = (XT w0 t3)^3 + 7)
    (ht1 : t1 ≠ 0) (ht2 : t2 ≠ 0) (ht3 : t3 ≠ 0)
    (e1 : y1^2 = gT w0 t1) (e2 : y2^2 = gT w0 t2) (e3 : y3^2 = gT w0 t3)
    (hd : t2 - t1 ≠ 0) (el : l*(t2 - t1) = y2 - y1)
    (c3 : t3 = l^2 - t1 - t2 - 18*w0) (cy : y3 = -(l*t3 + (y1 - l*t1)))
    (hX : XT w0 t2 ≠ XT w0 t1) :
    Secp.mkPt hP (XT w0 t3) (YT w0 t3 y3) E3
      = Secp.mkPt hP (XT w0 t2) (YT w0 t2 y2) E2 + Secp.mkPt hP (XT w0 t1) (YT w0 t1 y1) E1 := by
  obtain ⟨v2, v3⟩ := vieta w0 t1 y1 t2 y2 l e1 e2 hd el
  rw [← c3] at v2 v3
  have v1 : t1 + t2 + t3 = l^2 - 18*w0 := by rw [c3]; ring
  set m := y1 - l*t1 with hm
  have hs : m^2 - 2*w0^3 ≠ 0 := by
    rw [← v3]; exact mul_ne_zero (mul_ne_zero ht1 ht2) ht3
  have ey1 : y1 = l*t1 + m := by rw [hm]; ring
  have ey2 : y2 = l*t2 + m := by rw [hm]; linear_combination -el
  have L1 := line_T three_ne w0 l m t1 ht1 hs (by rw [← ey1]; exact e1)
  have L2 := line_T three_ne w0 l m t2 ht2 hs (by rw [← ey2]; exact e2)
  have L3 := line_T three_ne w0 l m t3 ht3 hs (by rw [← e3, cy]; ring)
  rw [← ey1] at L1
  rw [← ey2] at L2
  have S := sum_T three_ne w0 l m t1 t2 t3 ht1 ht2 ht3 v1 v2 v3
  have Y3 : YT w0 t3 y3 = - YT w0 t3 (l*t3 + m) := by rw [cy, YT_neg]
  generalize NL w0 l m / (3*(m^2 - 2*w0^3)) = Lr at L1 L2 L3 S
  generalize NM w0 l m / (27*(m^2 - 2*w0^3)) = Mr at L1 L2 L3
  have hsl : (Secp.W : Affine F).slope (XT w0 t2) (XT w0 t1) (YT w0 t2 y2) (YT w0 t1 y1) = Lr := by
    rw [Affine.slope_of_X_ne hX, div_eq_iff (sub_ne_zero.2 hX)]
    linear_combination L2 - L1
  unfold Secp.mkPt
  rw [Affine.Point.add_of_X_ne hX]
  congr 1
  · rw [hsl]; simp only [Affine.addX, Secp.W]
    linear_combination S
  · rw [hsl]; simp only [Affine.addY, Affine.negAddY, Affine.negY, Affine.addX, Secp.W]
    linear_combination Y3 - L3 + L2 - Lr * S

/-- **iso_hom_chord** (`//@ lemma iso_hom_chord` of `/repo/contracts_verif.go`): the statement
`iso_hom_chord_statement`, proved. -/
theorem iso_hom_chord (x2 y2 x1 y1 : F) :
    (onE3 x2 y2 ∧ onE3 x1 y1 ∧ x1 ≠ x2) → ptf (iso_x (chord_x x2 y2 x1 y1)) (iso_y (chord_x x2 y2 x1 y1) (chord_y x2 y2 x1 y1)) (iso_z (chord_x x2 y2 x1 y1)) = ptf (iso_x x2) (iso_y x2 y2) (iso_z x2) + ptf (iso_x x1) (iso_y x1 y1) (iso_z x1) := by
  rintro ⟨h2, h1, hne⟩
  have h3 := chord_on_curve x2 y2 x1 y1 ⟨h2, h1, hne⟩
  rw [iso_pt h1, iso_pt h2, iso_pt h3]
  have hxd : x2 - x1 ≠ 0 := sub_ne_zero.2 (Ne.symm hne)
  have hd : (x2 - 6*w0) - (x1 - 6*w0) ≠ 0 := by
    intro h; exact hne (by linear_combination -h)
  have el : chord_l x2 y2 x1 y1 * ((x2 - 6*w0) - (x1 - 6*w0)) = y2 - y1 := by
    unfold chord_l
    have : (x2 - 6*w0) - (x1 - 6*w0) = x2 - x1 := by ring
    rw [this, mul_assoc, inv_mul_cancel₀ hxd, mul_one]
  exact hom_T (x1 - 6*w0) y1 (x2 - 6*w0) y2 (chord_x x2 y2 x1 y1 - 6*w0) (chord_y x2 y2 x1 y1) (chord_l x2 y2 x1 y1)
    (iso_curve h1) (iso_curve h2) (iso_curve h3) (not_kernel h1) (not_kernel h2) (not_kernel h3)
    (onE3_t h1) (onE3_t h2) (onE3_t h3) hd el (by unfold chord_x; ring) (by unfold chord_y; ring)
    (X_ne h1 h2 hne)

theorem iso_hom_chord_statement_holds (x2 y2 x1 y1 : F) : iso_hom_chord_statement x2 y2 x1 y1 :=
  iso_hom_chord x2 y2 x1 y1

end SecpSMT
