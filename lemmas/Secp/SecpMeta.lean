import Mathlib.Data.List.Perm.Basic
import Mathlib.Data.List.Pairwise
import Mathlib.Data.Set.Basic
import Mathlib.Order.Disjoint
import Mathlib.Tactic

/-!
# Meta-theorems: history induction and disjoint-frame commutation

Two "paper arguments" of the contract verification, mechanised once and for all.  Nothing here mentions
secp256k1: the theorems are generic in the state, the operations and the memory.  The per-operation
obligations that they take as hypotheses are what the verification engine discharges, function by
function, from the contracts.

1. **History induction** (`history_refines`, `history_refines_pre`, `history_refines_guarded`,
   `history_refines_prefix`, `observations_agree`, `observations_agree_pre`, `observations_agree_prefix`,
   `observations_agree_pre_prefix`, `frame_preserved`, `frame_preserved_pre`).
   If every single API call preserves the representation invariant and commutes with the abstraction
   function, then so does every finite sequence of calls, whatever the choice of receiver and arguments
   (an operation `op : Op` is an arbitrary value, e.g. `(method, receiver, arg1, arg2)` with
   `receiver = arg1 = arg2` allowed; the theorems never look inside it).

2. **Disjoint-frame commutation** (`ops_commute`, `any_order_same`, `unwritten_unchanged`).
   Operations that write only inside their own frame and whose result depends only on their frame and
   their read set commute when each one's write frame is disjoint from the other's frame and read set;
   a list of pairwise independent operations yields the same final memory in every order, and every
   operation leaves in its frame exactly what it would have left if run alone from the initial memory.
   This is a statement about *whole operations* executed one after the other (in any order).  It is
   combined, outside Lean, with the DRF-SC guarantee of the Go memory model ("programs without data
   races behave as if all goroutines were multiplexed onto a single processor", i.e. sequentially
   consistently): disjoint write frames plus read-only shared arguments exclude data races, so every
   execution of the goroutines is equivalent to *some* interleaving; and since no operation reads a
   location that another one writes, every interleaving of the individual memory accesses gives each
   operation the same inputs as the order in which the operations run one after the other.  The Lean
   part is the last step: all such orders agree, and agree with running each operation alone.
-/

namespace Secp.Meta

/-! ## 1. History induction -/

/-- `run step ops s`: execute the history `ops` (head of the list first) from the state `s`.
Reducible: it *is* `List.foldl (fun s op => step op s) s ops`. -/
abbrev run {S Op : Type*} (step : Op → S → S) (ops : List Op) (s : S) : S :=
  ops.foldl (fun s op => step op s) s

theorem run_nil {S Op : Type*} (step : Op → S → S) (s : S) : run step [] s = s := rfl

theorem run_cons {S Op : Type*} (step : Op → S → S) (op : Op) (ops : List Op) (s : S) :
    run step (op :: ops) s = run step ops (step op s) := rfl

theorem run_append {S Op : Type*} (step : Op → S → S) (l₁ l₂ : List Op) (s : S) :
    run step (l₁ ++ l₂) s = run step l₂ (run step l₁ s) := by
  simp [run, List.foldl_append]

/-- **History induction.**  `C` concrete states (the pool of variables with their limbs), `A` abstract
states (every pool variable mapped to its group element / integer mod n), `abs` the abstraction function,
`Inv` the representation invariant, `stepC op` the Go method call, `stepA op` its specification.
If every operation, from every state satisfying `Inv`, re-establishes `Inv` and commutes with `abs`, then
after ANY finite history `ops` the invariant holds and the concrete state abstracts to the result of the
abstract history. -/
theorem history_refines {C A Op : Type*} (Inv : C → Prop) (abs : C → A)
    (stepC : Op → C → C) (stepA : Op → A → A)
    (h : ∀ op c, Inv c → Inv (stepC op c) ∧ abs (stepC op c) = stepA op (abs c)) :
    ∀ (ops : List Op) (c : C), Inv c →
      Inv (ops.foldl (fun c op => stepC op c) c) ∧
      abs (ops.foldl (fun c op => stepC op c) c) = ops.foldl (fun a op => stepA op a) (abs c) := by
  intro ops
  induction ops with
  | nil => intro c hc; exact ⟨hc, rfl⟩
  | cons op ops ih =>
    intro c hc
    obtain ⟨h1, h2⟩ := h op c hc
    simp only [List.foldl_cons]
    rw [← h2]
    exact ih _ h1

/-- `Admissible Pre stepC ops c`: the history `ops`, run from `c`, meets the precondition of each of
its operations *at the point where that operation is executed*:
`Admissible [] c`, and `Admissible (op :: ops) c ↔ Pre op c ∧ Admissible ops (stepC op c)`. -/
def Admissible {C Op : Type*} (Pre : Op → C → Prop) (stepC : Op → C → C) : List Op → C → Prop
  | [], _ => True
  | op :: ops, c => Pre op c ∧ Admissible Pre stepC ops (stepC op c)

@[simp] theorem admissible_nil {C Op : Type*} (Pre : Op → C → Prop) (stepC : Op → C → C) (c : C) :
    Admissible Pre stepC [] c := trivial

@[simp] theorem admissible_cons {C Op : Type*} (Pre : Op → C → Prop) (stepC : Op → C → C)
    (op : Op) (ops : List Op) (c : C) :
    Admissible Pre stepC (op :: ops) c ↔ Pre op c ∧ Admissible Pre stepC ops (stepC op c) := Iff.rfl

theorem admissible_append {C Op : Type*} (Pre : Op → C → Prop) (stepC : Op → C → C)
    (l₁ l₂ : List Op) (c : C) :
    Admissible Pre stepC (l₁ ++ l₂) c ↔
      Admissible Pre stepC l₁ c ∧ Admissible Pre stepC l₂ (run stepC l₁ c) := by
  induction l₁ generalizing c with
  | nil => simp
  | cons op l₁ ih => simp only [List.cons_append, admissible_cons, ih, run_cons, and_assoc]

/-- A history without preconditions (`Pre := fun _ _ => True`) is always admissible. -/
theorem admissible_true {C Op : Type*} (stepC : Op → C → C) (ops : List Op) (c : C) :
    Admissible (fun _ _ => True) stepC ops c := by
  induction ops generalizing c with
  | nil => trivial
  | cons op ops ih => exact ⟨trivial, ih _⟩

/-- **History induction with preconditions.**  Formulation chosen: the history is *assumed admissible*
(`Admissible Pre stepC ops c`: each operation's precondition `Pre op c'` holds in the concrete state `c'`
in which that operation is executed).  Nothing is claimed about histories in which some call violates
its precondition (in Go such a call is a contract violation by the caller).  The per-operation
obligation is needed only for states that satisfy the invariant *and* the precondition.
See `history_refines_guarded` for the formulation in which offending operations are skipped. -/
theorem history_refines_pre {C A Op : Type*} (Inv : C → Prop) (Pre : Op → C → Prop) (abs : C → A)
    (stepC : Op → C → C) (stepA : Op → A → A)
    (h : ∀ op c, Inv c → Pre op c → Inv (stepC op c) ∧ abs (stepC op c) = stepA op (abs c)) :
    ∀ (ops : List Op) (c : C), Inv c → Admissible Pre stepC ops c →
      Inv (run stepC ops c) ∧ abs (run stepC ops c) = run stepA ops (abs c) := by
  intro ops
  induction ops with
  | nil => intro c hc _; exact ⟨hc, rfl⟩
  | cons op ops ih =>
    intro c hc hadm
    obtain ⟨hp, hadm'⟩ := hadm
    obtain ⟨h1, h2⟩ := h op c hc hp
    simp only [run_cons]
    rw [← h2]
    exact ih _ h1 hadm'

/-- `guard P step`: execute `step op` only if `P op s` holds, otherwise leave the state unchanged. -/
def guard {S Op : Type*} (P : Op → S → Prop) [∀ op s, Decidable (P op s)] (step : Op → S → S)
    (op : Op) (s : S) : S :=
  if P op s then step op s else s

/-- **History induction, guarded formulation**: operations whose precondition fails are not executed.
For this to make sense on the abstract side the precondition must be expressible there: `PreA op (abs c)`
is equivalent to `Pre op c` on states satisfying the invariant.  Then ANY history, run with guards on
both sides, refines. -/
theorem history_refines_guarded {C A Op : Type*} (Inv : C → Prop)
    (Pre : Op → C → Prop) (PreA : Op → A → Prop)
    [∀ op c, Decidable (Pre op c)] [∀ op a, Decidable (PreA op a)]
    (abs : C → A) (stepC : Op → C → C) (stepA : Op → A → A)
    (hpre : ∀ op c, Inv c → (Pre op c ↔ PreA op (abs c)))
    (h : ∀ op c, Inv c → Pre op c → Inv (stepC op c) ∧ abs (stepC op c) = stepA op (abs c)) :
    ∀ (ops : List Op) (c : C), Inv c →
      Inv (run (guard Pre stepC) ops c) ∧
      abs (run (guard Pre stepC) ops c) = run (guard PreA stepA) ops (abs c) := by
  apply history_refines Inv abs (guard Pre stepC) (guard PreA stepA)
  intro op c hc
  by_cases hp : Pre op c
  · have hpa : PreA op (abs c) := (hpre op c hc).1 hp
    have e1 : guard Pre stepC op c = stepC op c := if_pos hp
    have e2 : guard PreA stepA op (abs c) = stepA op (abs c) := if_pos hpa
    rw [e1, e2]
    exact h op c hc hp
  · have hpa : ¬ PreA op (abs c) := fun q => hp ((hpre op c hc).2 q)
    have e1 : guard Pre stepC op c = c := if_neg hp
    have e2 : guard PreA stepA op (abs c) = abs c := if_neg hpa
    rw [e1, e2]
    exact ⟨hc, rfl⟩

/-- **After every step**: the conclusion of `history_refines_pre` holds for every prefix `pre` of an
admissible history (`pre <+: ops`, i.e. `∃ t, pre ++ t = ops`; `ops.take k` is such a prefix for every
`k`, `List.take_prefix`). -/
theorem history_refines_prefix {C A Op : Type*} (Inv : C → Prop) (Pre : Op → C → Prop) (abs : C → A)
    (stepC : Op → C → C) (stepA : Op → A → A)
    (h : ∀ op c, Inv c → Pre op c → Inv (stepC op c) ∧ abs (stepC op c) = stepA op (abs c)) :
    ∀ (ops : List Op) (c : C), Inv c → Admissible Pre stepC ops c →
      ∀ pre : List Op, pre <+: ops →
        Inv (run stepC pre c) ∧ abs (run stepC pre c) = run stepA pre (abs c) := by
  intro ops c hc hadm pre hpre
  obtain ⟨t, rfl⟩ := hpre
  exact history_refines_pre Inv Pre abs stepC stepA h pre c hc
    ((admissible_append Pre stepC pre t c).1 hadm).1

/-- **Observations agree** (no preconditions).  If an observation of the concrete state (`Equal`,
`IsIdentity`, `Bytes`, ...; `O` may be a function type, so observations may take arguments) is, on states
satisfying the invariant, a function of the abstract state, then after any history the concrete
observation is the abstract observation of the abstract history. -/
theorem observations_agree {C A Op O : Type*} (Inv : C → Prop) (abs : C → A)
    (stepC : Op → C → C) (stepA : Op → A → A)
    (h : ∀ op c, Inv c → Inv (stepC op c) ∧ abs (stepC op c) = stepA op (abs c))
    (obsC : C → O) (obsA : A → O) (hobs : ∀ c, Inv c → obsC c = obsA (abs c)) :
    ∀ (ops : List Op) (c : C), Inv c →
      obsC (run stepC ops c) = obsA (run stepA ops (abs c)) := by
  intro ops c hc
  obtain ⟨h1, h2⟩ : Inv (run stepC ops c) ∧ abs (run stepC ops c) = run stepA ops (abs c) :=
    history_refines Inv abs stepC stepA h ops c hc
  rw [← h2]
  exact hobs _ h1

/-- **Observations agree, with preconditions** (admissible histories, see `history_refines_pre`). -/
theorem observations_agree_pre {C A Op O : Type*} (Inv : C → Prop) (Pre : Op → C → Prop) (abs : C → A)
    (stepC : Op → C → C) (stepA : Op → A → A)
    (h : ∀ op c, Inv c → Pre op c → Inv (stepC op c) ∧ abs (stepC op c) = stepA op (abs c))
    (obsC : C → O) (obsA : A → O) (hobs : ∀ c, Inv c → obsC c = obsA (abs c)) :
    ∀ (ops : List Op) (c : C), Inv c → Admissible Pre stepC ops c →
      obsC (run stepC ops c) = obsA (run stepA ops (abs c)) := by
  intro ops c hc hadm
  obtain ⟨h1, h2⟩ := history_refines_pre Inv Pre abs stepC stepA h ops c hc hadm
  rw [← h2]
  exact hobs _ h1

/-- **Observations agree after every step, with preconditions**: for every prefix of an admissible
history. -/
theorem observations_agree_pre_prefix {C A Op O : Type*} (Inv : C → Prop) (Pre : Op → C → Prop)
    (abs : C → A) (stepC : Op → C → C) (stepA : Op → A → A)
    (h : ∀ op c, Inv c → Pre op c → Inv (stepC op c) ∧ abs (stepC op c) = stepA op (abs c))
    (obsC : C → O) (obsA : A → O) (hobs : ∀ c, Inv c → obsC c = obsA (abs c)) :
    ∀ (ops : List Op) (c : C), Inv c → Admissible Pre stepC ops c →
      ∀ pre : List Op, pre <+: ops →
        obsC (run stepC pre c) = obsA (run stepA pre (abs c)) := by
  intro ops c hc hadm pre hpre
  obtain ⟨h1, h2⟩ := history_refines_prefix Inv Pre abs stepC stepA h ops c hc hadm pre hpre
  rw [← h2]
  exact hobs _ h1

/-- **Observations agree after every step** (no preconditions): for every prefix `pre` of the history,
in particular for `ops.take k`, `k = 0, 1, ..., ops.length`. -/
theorem observations_agree_prefix {C A Op O : Type*} (Inv : C → Prop) (abs : C → A)
    (stepC : Op → C → C) (stepA : Op → A → A)
    (h : ∀ op c, Inv c → Inv (stepC op c) ∧ abs (stepC op c) = stepA op (abs c))
    (obsC : C → O) (obsA : A → O) (hobs : ∀ c, Inv c → obsC c = obsA (abs c)) :
    ∀ (ops : List Op) (c : C), Inv c →
      ∀ pre : List Op, pre <+: ops →
        obsC (run stepC pre c) = obsA (run stepA pre (abs c)) := by
  intro ops c hc pre hpre
  exact observations_agree_pre_prefix Inv (fun _ _ => True) abs stepC stepA
    (fun op c hc _ => h op c hc) obsC obsA hobs ops c hc (admissible_true stepC ops c) pre hpre

/-- The same with `List.take`: after each of the first `k` steps. -/
theorem observations_agree_take {C A Op O : Type*} (Inv : C → Prop) (abs : C → A)
    (stepC : Op → C → C) (stepA : Op → A → A)
    (h : ∀ op c, Inv c → Inv (stepC op c) ∧ abs (stepC op c) = stepA op (abs c))
    (obsC : C → O) (obsA : A → O) (hobs : ∀ c, Inv c → obsC c = obsA (abs c)) :
    ∀ (ops : List Op) (c : C), Inv c → ∀ k : ℕ,
      obsC (run stepC (ops.take k) c) = obsA (run stepA (ops.take k) (abs c)) := by
  intro ops c hc k
  exact observations_agree_prefix Inv abs stepC stepA h obsC obsA hobs ops c hc _ (List.take_prefix k ops)

/-- **Frame.**  Pool of variables `Var`, concrete state `c : Var → V`.  Every operation has one receiver
`recv op` and changes no other variable.  Then a variable that is never the receiver in the history has
the same value at the end as at the start (whether or not it was used as an argument, and whether or not
the receiver was also an argument). -/
theorem frame_preserved {Var V Op : Type*} (recv : Op → Var)
    (stepC : Op → (Var → V) → (Var → V))
    (hframe : ∀ op c v, v ≠ recv op → stepC op c v = c v) :
    ∀ (ops : List Op) (c : Var → V) (v : Var), (∀ op ∈ ops, recv op ≠ v) →
      run stepC ops c v = c v := by
  intro ops
  induction ops with
  | nil => intro c v _; rfl
  | cons op ops ih =>
    intro c v hv
    rw [run_cons, ih (stepC op c) v (fun op' h' => hv op' (List.mem_cons_of_mem _ h'))]
    exact hframe op c v (fun e => hv op (List.mem_cons.2 (Or.inl rfl)) e.symm)

/-- **Frame, with invariant and preconditions**: the per-operation frame obligation is only available
for states satisfying `Inv` and the precondition (that is how the contracts state it); the history is
admissible. -/
theorem frame_preserved_pre {Var V Op : Type*} (Inv : (Var → V) → Prop) (Pre : Op → (Var → V) → Prop)
    (recv : Op → Var) (stepC : Op → (Var → V) → (Var → V))
    (hinv : ∀ op c, Inv c → Pre op c → Inv (stepC op c))
    (hframe : ∀ op c, Inv c → Pre op c → ∀ v, v ≠ recv op → stepC op c v = c v) :
    ∀ (ops : List Op) (c : Var → V), Inv c → Admissible Pre stepC ops c →
      ∀ v : Var, (∀ op ∈ ops, recv op ≠ v) → run stepC ops c v = c v := by
  intro ops
  induction ops with
  | nil => intro c _ _ v _; rfl
  | cons op ops ih =>
    intro c hc hadm v hv
    obtain ⟨hp, hadm'⟩ := hadm
    rw [run_cons, ih (stepC op c) (hinv op c hc hp) hadm' v
      (fun op' h' => hv op' (List.mem_cons_of_mem _ h'))]
    exact hframe op c hc hp v (fun e => hv op (List.mem_cons.2 (Or.inl rfl)) e.symm)

/-! ## 2. Disjoint-frame commutation and determinism

Memory is `Loc → Val`.  Granularity: an operation is a *whole* API call, modelled as a function from
the memory before the call to the memory after it.  See the file header for how this is combined with
the DRF-SC guarantee of the Go memory model. -/

section Frames

variable {Loc : Type*} {Val : Type*}

/-- `Framed f W R`: the operation `f` (a) writes only inside its write frame `W`, and (b) what it leaves
in `W` depends only on the contents of `R ∪ W` (read set and frame) before the call. -/
structure Framed (f : (Loc → Val) → (Loc → Val)) (W R : Set Loc) : Prop where
  frame : ∀ m l, l ∉ W → f m l = m l
  dep : ∀ m m', (∀ l ∈ R ∪ W, m l = m' l) → ∀ l ∈ W, f m l = f m' l

/-- If `g` writes only inside `W₂` and `W₂` is disjoint from the frame and read set of `f`, then `f`
run after `g` leaves in its frame what it would have left if run alone. -/
theorem run_alone {f g : (Loc → Val) → (Loc → Val)} {W₁ R₁ W₂ : Set Loc}
    (hf : Framed f W₁ R₁) (hg : ∀ m l, l ∉ W₂ → g m l = m l)
    (h21 : Disjoint W₂ (W₁ ∪ R₁)) (m : Loc → Val) :
    ∀ l ∈ W₁, f (g m) l = f m l := by
  apply hf.dep
  intro l hl
  apply hg
  intro hw
  exact Set.disjoint_left.1 h21 hw (hl.elim Or.inr Or.inl)

/-- **Two independent operations commute**, and each one's result (the contents of its write frame) is
what it would be if the operation ran alone. -/
theorem ops_commute {f g : (Loc → Val) → (Loc → Val)} {W₁ R₁ W₂ R₂ : Set Loc}
    (hf : Framed f W₁ R₁) (hg : Framed g W₂ R₂)
    (h12 : Disjoint W₁ (W₂ ∪ R₂)) (h21 : Disjoint W₂ (W₁ ∪ R₁)) (m : Loc → Val) :
    f (g m) = g (f m) ∧ (∀ l ∈ W₁, f (g m) l = f m l) ∧ (∀ l ∈ W₂, g (f m) l = g m l) := by
  have a1 := run_alone hf hg.frame h21 m
  have a2 := run_alone hg hf.frame h12 m
  refine ⟨?_, a1, a2⟩
  funext l
  by_cases h1 : l ∈ W₁
  · have h2 : l ∉ W₂ := fun h2 => Set.disjoint_left.1 h12 h1 (Or.inl h2)
    rw [a1 l h1, hg.frame (f m) l h2]
  · by_cases h2 : l ∈ W₂
    · rw [a2 l h2, hf.frame (g m) l h1]
    · rw [hf.frame (g m) l h1, hg.frame m l h2, hg.frame (f m) l h2, hf.frame m l h1]

/-- An operation bundled with its write frame `W`, its read set `R` and the proof of `Framed`. -/
structure FOp (Loc : Type*) (Val : Type*) where
  f : (Loc → Val) → (Loc → Val)
  W : Set Loc
  R : Set Loc
  framed : Framed f W R

/-- Independence: each operation's write frame is disjoint from the other's write frame and read set
(read sets may overlap: shared read-only arguments). -/
def Indep (a b : FOp Loc Val) : Prop :=
  Disjoint a.W (b.W ∪ b.R) ∧ Disjoint b.W (a.W ∪ a.R)

theorem Indep.symm {a b : FOp Loc Val} (h : Indep a b) : Indep b a := ⟨h.2, h.1⟩

/-- Run a list of operations one after the other (head first). -/
def runOps (ops : List (FOp Loc Val)) (m : Loc → Val) : Loc → Val :=
  ops.foldl (fun m o => o.f m) m

theorem runOps_nil (m : Loc → Val) : runOps ([] : List (FOp Loc Val)) m = m := rfl

theorem runOps_cons (o : FOp Loc Val) (ops : List (FOp Loc Val)) (m : Loc → Val) :
    runOps (o :: ops) m = runOps ops (o.f m) := rfl

theorem runOps_append (l₁ l₂ : List (FOp Loc Val)) (m : Loc → Val) :
    runOps (l₁ ++ l₂) m = runOps l₂ (runOps l₁ m) := by
  simp [runOps, List.foldl_append]

/-- A location outside every write frame is unchanged (no independence needed). -/
theorem unwritten_unchanged (ops : List (FOp Loc Val)) (m : Loc → Val) (l : Loc)
    (h : ∀ o ∈ ops, l ∉ o.W) : runOps ops m l = m l := by
  induction ops generalizing m with
  | nil => rfl
  | cons o ops ih =>
    rw [runOps_cons, ih (o.f m) (fun p hp => h p (List.mem_cons_of_mem _ hp))]
    exact o.framed.frame m l (h o (List.mem_cons.2 (Or.inl rfl)))

/-- Pairwise independent operations give the same final memory in every order. -/
theorem runOps_perm {ops ops' : List (FOp Loc Val)} (hperm : ops.Perm ops') :
    ops.Pairwise Indep → ∀ m : Loc → Val, runOps ops m = runOps ops' m := by
  induction hperm with
  | nil => intro _ _; rfl
  | cons x _ ih =>
    intro hp m
    rw [runOps_cons, runOps_cons]
    exact ih (List.pairwise_cons.1 hp).2 _
  | swap x y l =>
    intro hp m
    have hyx : Indep y x := (List.pairwise_cons.1 hp).1 x (List.mem_cons.2 (Or.inl rfl))
    rw [runOps_cons, runOps_cons, runOps_cons, runOps_cons,
      (ops_commute x.framed y.framed hyx.2 hyx.1 m).1]
  | trans h₁ _ ih₁ ih₂ =>
    intro hp m
    rw [ih₁ hp m, ih₂ (hp.perm h₁ (fun h => Indep.symm h)) m]

/-- In a run of pairwise independent operations, every operation leaves in its write frame exactly what
it alone would have written from the initial memory. -/
theorem runOps_written {ops : List (FOp Loc Val)} (hind : ops.Pairwise Indep) (m : Loc → Val) :
    ∀ o ∈ ops, ∀ l ∈ o.W, runOps ops m l = o.f m l := by
  intro o ho l hl
  obtain ⟨s, t, rfl⟩ := List.append_of_mem ho
  obtain ⟨_, hot, hst⟩ := List.pairwise_append.1 hind
  have hot' := (List.pairwise_cons.1 hot).1
  rw [runOps_append, runOps_cons, unwritten_unchanged t _ l]
  · refine o.framed.dep _ _ ?_ l hl
    intro l' hl'
    apply unwritten_unchanged
    intro p hp hw
    have hpo : Indep p o := hst p hp o (List.mem_cons.2 (Or.inl rfl))
    exact Set.disjoint_left.1 hpo.1 hw (hl'.elim Or.inr Or.inl)
  · intro p hp hw
    have hop : Indep o p := hot' p hp
    exact Set.disjoint_left.1 hop.1 hl (Or.inl hw)

/-- **Any order, same result.**  `ops` is a list of pairwise independent operations (for all positions
`i < j`, `Indep ops[i] ops[j]`; `Indep` is symmetric), `ops'` any permutation of it (`List.Perm`), `m` the
initial memory.  Then running `ops'` gives the same final memory as running `ops`, and in that final
memory the write frame of every operation holds exactly what that operation alone would have written
from `m`.  (`unwritten_unchanged`: every other location holds what `m` holds.)  Granularity: whole
operations; see the file header for the combination with the Go memory model's DRF-SC guarantee. -/
theorem any_order_same {ops ops' : List (FOp Loc Val)} (hind : ops.Pairwise Indep)
    (hperm : ops.Perm ops') (m : Loc → Val) :
    runOps ops' m = runOps ops m ∧ ∀ o ∈ ops, ∀ l ∈ o.W, runOps ops' m l = o.f m l := by
  have e := runOps_perm hperm hind m
  refine ⟨e.symm, ?_⟩
  intro o ho l hl
  rw [← e]
  exact runOps_written hind m o ho l hl

end Frames

end Secp.Meta
