import Mathlib.NumberTheory.LucasPrimality
import Mathlib.Tactic.ReduceModChar
import Mathlib.Tactic

namespace Secp

theorem lucas_of_factors (p : ℕ) (a : ZMod p) (fs : List ℕ) (hprod : p - 1 = fs.prod)
    (hpr : ∀ f ∈ fs, f.Prime) (ha : a^(p-1) = 1) (hq : ∀ f ∈ fs, a^((p-1)/f) ≠ 1) : p.Prime := by
  refine lucas_primality p a ha (fun q hqp hdvd => ?_)
  rw [hprod] at hdvd
  obtain ⟨f, hf, hqf⟩ := (Prime.dvd_prod_iff hqp.prime).1 hdvd
  have : q = f := (Nat.prime_dvd_prime_iff_eq hqp (hpr f hf)).1 hqf
  subst this
  exact hq q hf

theorem prime_13331831 : Nat.Prime 13331831 := by
  refine lucas_of_factors 13331831 13 [2, 5, 971, 1373] (by norm_num) ?_ ?_ ?_
  · intro f hf
    simp only [List.mem_cons, List.mem_nil_iff, or_false] at hf
    rcases hf with rfl | rfl | rfl | rfl
    · exact (by norm_num)
    · exact (by norm_num)
    · exact (by norm_num)
    · exact (by norm_num)
  · norm_num; reduce_mod_char
  · intro f hf
    simp only [List.mem_cons, List.mem_nil_iff, or_false] at hf
    rcases hf with rfl | rfl | rfl | rfl <;> (norm_num; reduce_mod_char; decide)

theorem prime_173378833005251801 : Nat.Prime 173378833005251801 := by
  refine lucas_of_factors 173378833005251801 6 [2, 2, 2, 5, 5, 2621, 24809, 13331831] (by norm_num) ?_ ?_ ?_
  · intro f hf
    simp only [List.mem_cons, List.mem_nil_iff, or_false] at hf
    rcases hf with rfl | rfl | rfl | rfl | rfl | rfl | rfl | rfl
    · exact (by norm_num)
    · exact (by norm_num)
    · exact (by norm_num)
    · exact (by norm_num)
    · exact (by norm_num)
    · exact (by norm_num)
    · exact (by norm_num)
    · exact prime_13331831
  · norm_num; reduce_mod_char
  · intro f hf
    simp only [List.mem_cons, List.mem_nil_iff, or_false] at hf
    rcases hf with rfl | rfl | rfl | rfl | rfl | rfl | rfl | rfl <;> (norm_num; reduce_mod_char; decide)

theorem prime_22149492674086928081353 : Nat.Prime 22149492674086928081353 := by
  refine lucas_of_factors 22149492674086928081353 5 [2, 2, 2, 3, 5323, 173378833005251801] (by norm_num) ?_ ?_ ?_
  · intro f hf
    simp only [List.mem_cons, List.mem_nil_iff, or_false] at hf
    rcases hf with rfl | rfl | rfl | rfl | rfl | rfl
    · exact (by norm_num)
    · exact (by norm_num)
    · exact (by norm_num)
    · exact (by norm_num)
    · exact (by norm_num)
    · exact prime_173378833005251801
  · norm_num; reduce_mod_char
  · intro f hf
    simp only [List.mem_cons, List.mem_nil_iff, or_false] at hf
    rcases hf with rfl | rfl | rfl | rfl | rfl | rfl <;> (norm_num; reduce_mod_char; decide)

theorem prime_132896956044521568488119 : Nat.Prime 132896956044521568488119 := by
  refine lucas_of_factors 132896956044521568488119 6 [2, 3, 22149492674086928081353] (by norm_num) ?_ ?_ ?_
  · intro f hf
    simp only [List.mem_cons, List.mem_nil_iff, or_false] at hf
    rcases hf with rfl | rfl | rfl
    · exact (by norm_num)
    · exact (by norm_num)
    · exact prime_22149492674086928081353
  · norm_num; reduce_mod_char
  · intro f hf
    simp only [List.mem_cons, List.mem_nil_iff, or_false] at hf
    rcases hf with rfl | rfl | rfl <;> (norm_num; reduce_mod_char; decide)

theorem prime_107590001 : Nat.Prime 107590001 := by
  refine lucas_of_factors 107590001 3 [2, 2, 2, 2, 5, 5, 5, 5, 7, 29, 53] (by norm_num) ?_ ?_ ?_
  · intro f hf
    simp only [List.mem_cons, List.mem_nil_iff, or_false] at hf
    rcases hf with rfl | rfl | rfl | rfl | rfl | rfl | rfl | rfl | rfl | rfl | rfl
    · exact (by norm_num)
    · exact (by norm_num)
    · exact (by norm_num)
    · exact (by norm_num)
    · exact (by norm_num)
    · exact (by norm_num)
    · exact (by norm_num)
    · exact (by norm_num)
    · exact (by norm_num)
    · exact (by norm_num)
    · exact (by norm_num)
  · norm_num; reduce_mod_char
  · intro f hf
    simp only [List.mem_cons, List.mem_nil_iff, or_false] at hf
    rcases hf with rfl | rfl | rfl | rfl | rfl | rfl | rfl | rfl | rfl | rfl | rfl <;> (norm_num; reduce_mod_char; decide)

theorem prime_1206781 : Nat.Prime 1206781 := by
  refine lucas_of_factors 1206781 10 [2, 2, 3, 5, 20113] (by norm_num) ?_ ?_ ?_
  · intro f hf
    simp only [List.mem_cons, List.mem_nil_iff, or_false] at hf
    rcases hf with rfl | rfl | rfl | rfl | rfl
    · exact (by norm_num)
    · exact (by norm_num)
    · exact (by norm_num)
    · exact (by norm_num)
    · exact (by norm_num)
  · norm_num; reduce_mod_char
  · intro f hf
    simp only [List.mem_cons, List.mem_nil_iff, or_false] at hf
    rcases hf with rfl | rfl | rfl | rfl | rfl <;> (norm_num; reduce_mod_char; decide)

theorem prime_7240687 : Nat.Prime 7240687 := by
  refine lucas_of_factors 7240687 3 [2, 3, 1206781] (by norm_num) ?_ ?_ ?_
  · intro f hf
    simp only [List.mem_cons, List.mem_nil_iff, or_false] at hf
    rcases hf with rfl | rfl | rfl
    · exact (by norm_num)
    · exact (by norm_num)
    · exact prime_1206781
  · norm_num; reduce_mod_char
  · intro f hf
    simp only [List.mem_cons, List.mem_nil_iff, or_false] at hf
    rcases hf with rfl | rfl | rfl <;> (norm_num; reduce_mod_char; decide)

theorem prime_255515944373312847190720520512484175977 : Nat.Prime 255515944373312847190720520512484175977 := by
  refine lucas_of_factors 255515944373312847190720520512484175977 3 [2, 2, 2, 7, 7, 11, 1627, 2657, 4423, 41201, 96557, 7240687, 107590001] (by norm_num) ?_ ?_ ?_
  · intro f hf
    simp only [List.mem_cons, List.mem_nil_iff, or_false] at hf
    rcases hf with rfl | rfl | rfl | rfl | rfl | rfl | rfl | rfl | rfl | rfl | rfl | rfl | rfl
    · exact (by norm_num)
    · exact (by norm_num)
    · exact (by norm_num)
    · exact (by norm_num)
    · exact (by norm_num)
    · exact (by norm_num)
    · exact (by norm_num)
    · exact (by norm_num)
    · exact (by norm_num)
    · exact (by norm_num)
    · exact (by norm_num)
    · exact prime_7240687
    · exact prime_107590001
  · norm_num; reduce_mod_char
  · intro f hf
    simp only [List.mem_cons, List.mem_nil_iff, or_false] at hf
    rcases hf with rfl | rfl | rfl | rfl | rfl | rfl | rfl | rfl | rfl | rfl | rfl | rfl | rfl <;> (norm_num; reduce_mod_char; decide)

theorem prime_205115282021455665897114700593932402728804164701536103180137503955397371 : Nat.Prime 205115282021455665897114700593932402728804164701536103180137503955397371 := by
  refine lucas_of_factors 205115282021455665897114700593932402728804164701536103180137503955397371 10 [2, 3, 5, 29, 29, 31, 7723, 132896956044521568488119, 255515944373312847190720520512484175977] (by norm_num) ?_ ?_ ?_
  · intro f hf
    simp only [List.mem_cons, List.mem_nil_iff, or_false] at hf
    rcases hf with rfl | rfl | rfl | rfl | rfl | rfl | rfl | rfl | rfl
    · exact (by norm_num)
    · exact (by norm_num)
    · exact (by norm_num)
    · exact (by norm_num)
    · exact (by norm_num)
    · exact (by norm_num)
    · exact (by norm_num)
    · exact prime_132896956044521568488119
    · exact prime_255515944373312847190720520512484175977
  · norm_num; reduce_mod_char
  · intro f hf
    simp only [List.mem_cons, List.mem_nil_iff, or_false] at hf
    rcases hf with rfl | rfl | rfl | rfl | rfl | rfl | rfl | rfl | rfl <;> (norm_num; reduce_mod_char; decide)

theorem prime_115792089237316195423570985008687907853269984665640564039457584007908834671663 : Nat.Prime 115792089237316195423570985008687907853269984665640564039457584007908834671663 := by
  refine lucas_of_factors 115792089237316195423570985008687907853269984665640564039457584007908834671663 3 [2, 3, 7, 13441, 205115282021455665897114700593932402728804164701536103180137503955397371] (by norm_num) ?_ ?_ ?_
  · intro f hf
    simp only [List.mem_cons, List.mem_nil_iff, or_false] at hf
    rcases hf with rfl | rfl | rfl | rfl | rfl
    · exact (by norm_num)
    · exact (by norm_num)
    · exact (by norm_num)
    · exact (by norm_num)
    · exact prime_205115282021455665897114700593932402728804164701536103180137503955397371
  · norm_num; reduce_mod_char
  · intro f hf
    simp only [List.mem_cons, List.mem_nil_iff, or_false] at hf
    rcases hf with rfl | rfl | rfl | rfl | rfl <;> (norm_num; reduce_mod_char; decide)

theorem prime_4681609 : Nat.Prime 4681609 := by
  refine lucas_of_factors 4681609 23 [2, 2, 2, 3, 97, 2011] (by norm_num) ?_ ?_ ?_
  · intro f hf
    simp only [List.mem_cons, List.mem_nil_iff, or_false] at hf
    rcases hf with rfl | rfl | rfl | rfl | rfl | rfl
    · exact (by norm_num)
    · exact (by norm_num)
    · exact (by norm_num)
    · exact (by norm_num)
    · exact (by norm_num)
    · exact (by norm_num)
  · norm_num; reduce_mod_char
  · intro f hf
    simp only [List.mem_cons, List.mem_nil_iff, or_false] at hf
    rcases hf with rfl | rfl | rfl | rfl | rfl | rfl <;> (norm_num; reduce_mod_char; decide)

theorem prime_107361793816595537 : Nat.Prime 107361793816595537 := by
  refine lucas_of_factors 107361793816595537 3 [2, 2, 2, 2, 16699, 85831, 4681609] (by norm_num) ?_ ?_ ?_
  · intro f hf
    simp only [List.mem_cons, List.mem_nil_iff, or_false] at hf
    rcases hf with rfl | rfl | rfl | rfl | rfl | rfl | rfl
    · exact (by norm_num)
    · exact (by norm_num)
    · exact (by norm_num)
    · exact (by norm_num)
    · exact (by norm_num)
    · exact (by norm_num)
    · exact prime_4681609
  · norm_num; reduce_mod_char
  · intro f hf
    simp only [List.mem_cons, List.mem_nil_iff, or_false] at hf
    rcases hf with rfl | rfl | rfl | rfl | rfl | rfl | rfl <;> (norm_num; reduce_mod_char; decide)

theorem prime_120233 : Nat.Prime 120233 := by
  refine lucas_of_factors 120233 3 [2, 2, 2, 7, 19, 113] (by norm_num) ?_ ?_ ?_
  · intro f hf
    simp only [List.mem_cons, List.mem_nil_iff, or_false] at hf
    rcases hf with rfl | rfl | rfl | rfl | rfl | rfl
    · exact (by norm_num)
    · exact (by norm_num)
    · exact (by norm_num)
    · exact (by norm_num)
    · exact (by norm_num)
    · exact (by norm_num)
  · norm_num; reduce_mod_char
  · intro f hf
    simp only [List.mem_cons, List.mem_nil_iff, or_false] at hf
    rcases hf with rfl | rfl | rfl | rfl | rfl | rfl <;> (norm_num; reduce_mod_char; decide)

theorem prime_44706919 : Nat.Prime 44706919 := by
  refine lucas_of_factors 44706919 6 [2, 3, 797, 9349] (by norm_num) ?_ ?_ ?_
  · intro f hf
    simp only [List.mem_cons, List.mem_nil_iff, or_false] at hf
    rcases hf with rfl | rfl | rfl | rfl
    · exact (by norm_num)
    · exact (by norm_num)
    · exact (by norm_num)
    · exact (by norm_num)
  · norm_num; reduce_mod_char
  · intro f hf
    simp only [List.mem_cons, List.mem_nil_iff, or_false] at hf
    rcases hf with rfl | rfl | rfl | rfl <;> (norm_num; reduce_mod_char; decide)

theorem prime_174723607534414371449 : Nat.Prime 174723607534414371449 := by
  refine lucas_of_factors 174723607534414371449 3 [2, 2, 2, 17, 59, 4051, 120233, 44706919] (by norm_num) ?_ ?_ ?_
  · intro f hf
    simp only [List.mem_cons, List.mem_nil_iff, or_false] at hf
    rcases hf with rfl | rfl | rfl | rfl | rfl | rfl | rfl | rfl
    · exact (by norm_num)
    · exact (by norm_num)
    · exact (by norm_num)
    · exact (by norm_num)
    · exact (by norm_num)
    · exact (by norm_num)
    · exact prime_120233
    · exact prime_44706919
  · norm_num; reduce_mod_char
  · intro f hf
    simp only [List.mem_cons, List.mem_nil_iff, or_false] at hf
    rcases hf with rfl | rfl | rfl | rfl | rfl | rfl | rfl | rfl <;> (norm_num; reduce_mod_char; decide)

theorem prime_305873 : Nat.Prime 305873 := by
  refine lucas_of_factors 305873 3 [2, 2, 2, 2, 7, 2731] (by norm_num) ?_ ?_ ?_
  · intro f hf
    simp only [List.mem_cons, List.mem_nil_iff, or_false] at hf
    rcases hf with rfl | rfl | rfl | rfl | rfl | rfl
    · exact (by norm_num)
    · exact (by norm_num)
    · exact (by norm_num)
    · exact (by norm_num)
    · exact (by norm_num)
    · exact (by norm_num)
  · norm_num; reduce_mod_char
  · intro f hf
    simp only [List.mem_cons, List.mem_nil_iff, or_false] at hf
    rcases hf with rfl | rfl | rfl | rfl | rfl | rfl <;> (norm_num; reduce_mod_char; decide)

theorem prime_545358713 : Nat.Prime 545358713 := by
  refine lucas_of_factors 545358713 5 [2, 2, 2, 41, 59, 28181] (by norm_num) ?_ ?_ ?_
  · intro f hf
    simp only [List.mem_cons, List.mem_nil_iff, or_false] at hf
    rcases hf with rfl | rfl | rfl | rfl | rfl | rfl
    · exact (by norm_num)
    · exact (by norm_num)
    · exact (by norm_num)
    · exact (by norm_num)
    · exact (by norm_num)
    · exact (by norm_num)
  · norm_num; reduce_mod_char
  · intro f hf
    simp only [List.mem_cons, List.mem_nil_iff, or_false] at hf
    rcases hf with rfl | rfl | rfl | rfl | rfl | rfl <;> (norm_num; reduce_mod_char; decide)

theorem prime_1627771 : Nat.Prime 1627771 := by
  refine lucas_of_factors 1627771 3 [2, 3, 5, 29, 1871] (by norm_num) ?_ ?_ ?_
  · intro f hf
    simp only [List.mem_cons, List.mem_nil_iff, or_false] at hf
    rcases hf with rfl | rfl | rfl | rfl | rfl
    · exact (by norm_num)
    · exact (by norm_num)
    · exact (by norm_num)
    · exact (by norm_num)
    · exact (by norm_num)
  · norm_num; reduce_mod_char
  · intro f hf
    simp only [List.mem_cons, List.mem_nil_iff, or_false] at hf
    rcases hf with rfl | rfl | rfl | rfl | rfl <;> (norm_num; reduce_mod_char; decide)

theorem prime_297159362677 : Nat.Prime 297159362677 := by
  refine lucas_of_factors 297159362677 2 [2, 2, 3, 3, 11, 461, 1627771] (by norm_num) ?_ ?_ ?_
  · intro f hf
    simp only [List.mem_cons, List.mem_nil_iff, or_false] at hf
    rcases hf with rfl | rfl | rfl | rfl | rfl | rfl | rfl
    · exact (by norm_num)
    · exact (by norm_num)
    · exact (by norm_num)
    · exact (by norm_num)
    · exact (by norm_num)
    · exact (by norm_num)
    · exact prime_1627771
  · norm_num; reduce_mod_char
  · intro f hf
    simp only [List.mem_cons, List.mem_nil_iff, or_false] at hf
    rcases hf with rfl | rfl | rfl | rfl | rfl | rfl | rfl <;> (norm_num; reduce_mod_char; decide)

theorem prime_29047611873442575647497758179 : Nat.Prime 29047611873442575647497758179 := by
  refine lucas_of_factors 29047611873442575647497758179 2 [2, 293, 305873, 545358713, 297159362677] (by norm_num) ?_ ?_ ?_
  · intro f hf
    simp only [List.mem_cons, List.mem_nil_iff, or_false] at hf
    rcases hf with rfl | rfl | rfl | rfl | rfl
    · exact (by norm_num)
    · exact (by norm_num)
    · exact prime_305873
    · exact prime_545358713
    · exact prime_297159362677
  · norm_num; reduce_mod_char
  · intro f hf
    simp only [List.mem_cons, List.mem_nil_iff, or_false] at hf
    rcases hf with rfl | rfl | rfl | rfl | rfl <;> (norm_num; reduce_mod_char; decide)

theorem prime_341948486974166000522343609283189 : Nat.Prime 341948486974166000522343609283189 := by
  refine lucas_of_factors 341948486974166000522343609283189 2 [2, 2, 3, 3, 3, 109, 29047611873442575647497758179] (by norm_num) ?_ ?_ ?_
  · intro f hf
    simp only [List.mem_cons, List.mem_nil_iff, or_false] at hf
    rcases hf with rfl | rfl | rfl | rfl | rfl | rfl | rfl
    · exact (by norm_num)
    · exact (by norm_num)
    · exact (by norm_num)
    · exact (by norm_num)
    · exact (by norm_num)
    · exact (by norm_num)
    · exact prime_29047611873442575647497758179
  · norm_num; reduce_mod_char
  · intro f hf
    simp only [List.mem_cons, List.mem_nil_iff, or_false] at hf
    rcases hf with rfl | rfl | rfl | rfl | rfl | rfl | rfl <;> (norm_num; reduce_mod_char; decide)

theorem prime_115792089237316195423570985008687907852837564279074904382605163141518161494337 : Nat.Prime 115792089237316195423570985008687907852837564279074904382605163141518161494337 := by
  refine lucas_of_factors 115792089237316195423570985008687907852837564279074904382605163141518161494337 7 [2, 2, 2, 2, 2, 2, 3, 149, 631, 107361793816595537, 174723607534414371449, 341948486974166000522343609283189] (by norm_num) ?_ ?_ ?_
  · intro f hf
    simp only [List.mem_cons, List.mem_nil_iff, or_false] at hf
    rcases hf with rfl | rfl | rfl | rfl | rfl | rfl | rfl | rfl | rfl | rfl | rfl | rfl
    · exact (by norm_num)
    · exact (by norm_num)
    · exact (by norm_num)
    · exact (by norm_num)
    · exact (by norm_num)
    · exact (by norm_num)
    · exact (by norm_num)
    · exact (by norm_num)
    · exact (by norm_num)
    · exact prime_107361793816595537
    · exact prime_174723607534414371449
    · exact prime_341948486974166000522343609283189
  · norm_num; reduce_mod_char
  · intro f hf
    simp only [List.mem_cons, List.mem_nil_iff, or_false] at hf
    rcases hf with rfl | rfl | rfl | rfl | rfl | rfl | rfl | rfl | rfl | rfl | rfl | rfl <;> (norm_num; reduce_mod_char; decide)

/-- A1 -/
theorem prime_P : Nat.Prime 115792089237316195423570985008687907853269984665640564039457584007908834671663 := prime_115792089237316195423570985008687907853269984665640564039457584007908834671663
theorem prime_N : Nat.Prime 115792089237316195423570985008687907852837564279074904382605163141518161494337 := prime_115792089237316195423570985008687907852837564279074904382605163141518161494337

end Secp
