#!/usr/bin/env bash
# Build the Lean lemma library and write build/stamp.json.
#
#   build.sh             compile Secp/*.lean (dependency order, parallel), #print axioms of the key
#                        theorems, write build/stamp.json.  Unchanged files are not recompiled.
#   build.sh --recheck   additionally replay every compiled module through `leanchecker`
#   build.sh --force     ignore the cache
#   JOBS=n build.sh      cap on parallel lean processes (default: nproc)
#
# Always exits 0; the status of every file and theorem is in build/stamp.json.
# Needs only: bash >= 4.3, coreutils (sha256sum, date), grep, sed, awk, and `lean` (+ Mathlib on lean's
# default search path); no network.  python3 (standard library only) is needed for one step: the mechanical
# statement check.  scripts/gen_statements.py re-translates the `//@ lemma` lines of the contract files into
# Secp/GenSMT.lean and Secp/GenSMT2.lean (rewritten only if their content changes), which are then compiled like
# every other file; stamp.json records the outcome under "mechanical_statement_check".  Without python3 everything
# else still works and that key carries an "error".  Apart from those two files everything is written under build/.

HERE="$(cd "$(dirname "${BASH_SOURCE[0]}")" && pwd)"
SRC="$HERE/Secp"
B="$HERE/build"
RECHECK=0
FORCE=0
for a in "$@"; do
  case "$a" in
    --recheck) RECHECK=1 ;;
    --force) FORCE=1 ;;
    -h|--help) sed -n '2,13p' "${BASH_SOURCE[0]}"; exit 0 ;;
    *) echo "build.sh: unknown argument $a" >&2 ;;
  esac
done
JOBS="${JOBS:-$(nproc 2>/dev/null || echo 4)}"
T0=$(date +%s.%N)
mkdir -p "$B" "$B/meta" "$B/logs" "$B/axioms"

# Our own .olean files live in build/; Mathlib is found on lean's default path (it is linked into
# `lean --print-libdir`).  LEAN_PATH is *added* to that default path, it does not replace it.
export LEAN_PATH="$B${LEAN_PATH:+:$LEAN_PATH}"

# ---- key theorems: "<fully qualified name> <module>" ------------------------------------------------
THEOREMS="
Secp.rcb_add SecpD
Secp.valid_aff SecpD
Secp.valid_scale SecpD
Secp.pt_scale SecpD
Secp.rcb_dbl SecpE
Secp.pt_eq_iff SecpE
Secp.pt_neg SecpE
Secp.pt_identity_iff SecpE
Secp.valid_of_affine SecpE
Secp.pt_of_affine SecpE
Secp.hypP SecpN
Secp.glue_mul SecpG
Secp.glue_from SecpG
Secp.glue_to SecpG
Secp.glue_inj SecpG
Secp.sqrt_ratio_3mod4 SecpS
Secp.fermat_inv SecpF
Secp.pow_chain_mul SecpF
Secp.pow_chain_sq SecpF
Secp.prime_P SecpPrime
Secp.prime_N SecpPrime
Secp.iso_on_curve SecpI
Secp.sswu_on_curve SecpM
SecpSMT.glue_add SecpSMT
SecpSMT.glue_sub SecpSMT
SecpSMT.glue_neg SecpSMT
SecpSMT.glue_mul SecpSMT
SecpSMT.glue_to SecpSMT
SecpSMT.glue_from SecpSMT
SecpSMT.glue_zero SecpSMT
SecpSMT.glue_inj SecpSMT
SecpSMT.fofint_mod SecpSMT
SecpSMT.fint_range SecpSMT
SecpSMT.fofint_fint SecpSMT
SecpSMT.fofint_wide SecpSMT
SecpSMT.fofint_lin SecpSMT
SecpSMT.fermat_inv SecpSMT
SecpSMT.sqrt_ratio_one SecpSMT
SecpSMT.glue_add_n SecpSMT
SecpSMT.glue_sub_n SecpSMT
SecpSMT.glue_mul_n SecpSMT
SecpSMT.glue_to_n SecpSMT
SecpSMT.glue_from_n SecpSMT
SecpSMT.glue_zero_n SecpSMT
SecpSMT.glue_inj_n SecpSMT
SecpSMT.nofint_mod SecpSMT
SecpSMT.nint_range SecpSMT
SecpSMT.nofint_fint SecpSMT
SecpSMT.nofint_wide SecpSMT
SecpSMT.fermat_inv_n SecpSMT
SecpSMT.rcb_add SecpSMT
SecpSMT.rcb_dbl SecpSMT
SecpSMT.pt_neg SecpSMT
SecpSMT.pt_identity_iff SecpSMT
SecpSMT.pt_eq_iff SecpSMT
SecpSMT.gneg_zero SecpSMT
SecpSMT.valid_identity SecpSMT
SecpSMT.bit_def SecpSMT
SecpSMT.bit_limb SecpSMT
SecpSMT.hi_step SecpSMT
SecpSMT.hi_top SecpSMT
SecpSMT.hi_zero SecpSMT
SecpSMT.smul_add SecpSMT
SecpSMT.smul_zero SecpSMT
SecpSMT.smul_one SecpSMT
SecpSMT.pt_of_affine SecpSMT
SecpSMT.aff_coords SecpSMT
SecpSMT.aff_of SecpSMT
SecpSMT.neg_parity SecpSMT
SecpSMT.fneg_sq SecpSMT
SecpSMT.poly_nonzero SecpSMT
SecpSMT.sq_zero SecpSMT
SecpSMT.firstnz_step SecpSMT
SecpSMT.neg_zero_iff SecpSMT
SecpSMT.chord_on_curve SecpSMT
SecpSMT.same_x_parity SecpSMT
SecpSMT.same_xy SecpSMT
SecpSMT.aff_on_curve SecpSMT
SecpSMT.issq_of_sq SecpSMT
SecpSMT.fofint_eq SecpSMT
SecpSMT.bitsumf_eq SecpSMT
SecpSMT.bits_total SecpSMT
SecpSMT.add_neg_cancel SecpSMT
SecpSMT.ninv_mul SecpSMT
SecpSMT.smul_gzero SecpSMT
SecpSMT.sswu_on_curve SecpSMT2
SecpSMT.iso_valid SecpSMT2
SecpSMT.iso_hom_chord SecpSMT3
SecpSMT.iso_hom_chord_statement_holds SecpSMT3
SecpSMT.seven_nonsq SecpSMT3
SecpSMT.not_kernel SecpSMT3
SecpSMT.iso_pt SecpSMT3
SecpSMT.X_ne SecpSMT3
SecpSMT.sswu_computes_prose SecpSSWU
SecpSMT.sswu_eq_prose SecpSSWU
SecpSMT.sswu_x_eq_prose SecpSSWU
SecpSMT.sswu_y_sq SecpSSWU
SecpSMT.sswu_y_sign SecpSSWU
SecpSMT.sswu_y_on_curve SecpSSWU
SecpSMT.prose_gx_isSquare SecpSSWU
SecpSMT.prose_y_indep SecpSSWU
SecpSMT.prose_x1_eq SecpSSWU
SecpSMT.prose_gx1_eq SecpSSWU
SecpSMT.sswu_sqrt_ratio SecpSSWU
SecpSMT.exc_isSquare SecpSSWU
Secp.Meta.history_refines SecpMeta
Secp.Meta.history_refines_pre SecpMeta
Secp.Meta.history_refines_guarded SecpMeta
Secp.Meta.history_refines_prefix SecpMeta
Secp.Meta.observations_agree SecpMeta
Secp.Meta.observations_agree_pre SecpMeta
Secp.Meta.observations_agree_prefix SecpMeta
Secp.Meta.observations_agree_pre_prefix SecpMeta
Secp.Meta.observations_agree_take SecpMeta
Secp.Meta.frame_preserved SecpMeta
Secp.Meta.frame_preserved_pre SecpMeta
Secp.Meta.run_alone SecpMeta
Secp.Meta.ops_commute SecpMeta
Secp.Meta.unwritten_unchanged SecpMeta
Secp.Meta.runOps_perm SecpMeta
Secp.Meta.runOps_written SecpMeta
Secp.Meta.any_order_same SecpMeta
"
# Lemma lines tagged `{lean: ASSUMED ...}` in the contract files: intentionally NOT proved.  They are never listed
# under "theorems" (so nothing can read them as ok); stamp.json only names them under "assumed".
# Currently none: `iso_hom_chord`, the one lemma that used to be assumed, is proved in SecpSMT3.lean.
ASSUMED=""
ALLOWED_AXIOMS=" propext Classical.choice Quot.sound "

elapsed() { awk -v a="$1" -v b="$2" 'BEGIN{printf "%.1f", b-a}'; }
throttle() { while (( $(jobs -rp | wc -l) >= JOBS )); do wait -n 2>/dev/null || break; done; }
jstr() { printf '"%s"' "$(printf '%s' "$1" | sed 's/\\/\\\\/g; s/"/\\"/g' | tr '\n\t' '  ')"; }

LEANVER="$(lean --version 2>/dev/null | head -1)"
HAVE_LEAN=1
[ -n "$LEANVER" ] || { HAVE_LEAN=0; LEANVER="lean not found"; }

# ---- mechanical statement check, step 1: regenerate Secp/GenSMT.lean and Secp/GenSMT2.lean -----------
GEN="$HERE/scripts/gen_statements.py"
HAVE_PY=0
if command -v python3 >/dev/null 2>&1; then
  HAVE_PY=1
  python3 "$GEN" --quiet > "$B/logs/gen_statements.log" 2>&1 \
    || echo "build.sh: gen_statements.py could not translate every lemma line, see build/logs/gen_statements.log" >&2
else
  echo "build.sh: python3 not found, Secp/GenSMT*.lean not regenerated, no mechanical statement check" >&2
fi

# ---- modules, local imports, content hashes ----------------------------------------------------------
declare -A SHA DEPS KEY LEVEL OK SECS ERR CACHED CHK
MODS=()
for f in "$SRC"/*.lean; do
  [ -e "$f" ] || continue
  MODS+=("$(basename "$f" .lean)")
done
for m in "${MODS[@]}"; do
  SHA[$m]="$(sha256sum "$SRC/$m.lean" | cut -d' ' -f1)"
  d=""
  for imp in $(grep -E '^[[:space:]]*(public[[:space:]]+)?import[[:space:]]' "$SRC/$m.lean" | sed -E 's/^[[:space:]]*(public[[:space:]]+)?import[[:space:]]+//'); do
    [ -e "$SRC/$imp.lean" ] && d="$d $imp"
  done
  DEPS[$m]="$(echo $d | tr ' ' '\n' | sort -u | tr '\n' ' ' | sed 's/ $//')"
done

# ---- topological levels ------------------------------------------------------------------------------
remaining=("${MODS[@]}")
lvl=0
ORDER=()
while ((${#remaining[@]})); do
  ready=(); rest=()
  for m in "${remaining[@]}"; do
    r=1
    for d in ${DEPS[$m]}; do [ -n "${LEVEL[$d]+x}" ] || r=0; done
    if ((r)); then ready+=("$m"); else rest+=("$m"); fi
  done
  if ((${#ready[@]} == 0)); then
    for m in "${rest[@]}"; do LEVEL[$m]=-1; OK[$m]=false; SECS[$m]=0; ERR[$m]="import cycle"; KEY[$m]="cycle"; ORDER+=("$m"); done
    break
  fi
  for m in "${ready[@]}"; do LEVEL[$m]=$lvl; ORDER+=("$m"); done
  remaining=("${rest[@]}")
  lvl=$((lvl+1))
done
NLEVELS=$lvl

# cache key of a module = H(lean version, own source hash, cache keys of its local imports)
for m in "${ORDER[@]}"; do
  [ "${LEVEL[$m]}" = "-1" ] && continue
  k="$LEANVER"$'\n'"${SHA[$m]}"
  for d in ${DEPS[$m]}; do k="$k"$'\n'"$d ${KEY[$d]}"; done
  KEY[$m]="$(printf '%s' "$k" | sha256sum | cut -d' ' -f1)"
done

# ---- compile -----------------------------------------------------------------------------------------
compile_one() {  # runs in a background subshell; result goes to meta/<m>.stamp = "<key> <ok|fail> <seconds>"
  local m="$1" s e rc
  rm -f "$B/$m.olean" "$B/$m.ilean" "$B/meta/$m.stamp" "$B/meta/$m.chk"
  s=$(date +%s.%N)
  ( cd "$SRC" && lean --root="$SRC" -o "$B/$m.olean" -i "$B/$m.ilean" "$m.lean" ) > "$B/logs/$m.log" 2>&1
  rc=$?
  e=$(date +%s.%N)
  if [ $rc -eq 0 ] && [ -s "$B/$m.olean" ]; then
    echo "${KEY[$m]} ok $(elapsed "$s" "$e")" > "$B/meta/$m.stamp"
  else
    rm -f "$B/$m.olean" "$B/$m.ilean"
    echo "${KEY[$m]} fail $(elapsed "$s" "$e")" > "$B/meta/$m.stamp"
  fi
}

for ((l = 0; l < NLEVELS; l++)); do
  for m in "${ORDER[@]}"; do
    [ "${LEVEL[$m]}" = "$l" ] || continue
    bad=""
    for d in ${DEPS[$m]}; do [ "${OK[$d]}" = true ] || bad="$bad $d"; done
    if [ -n "$bad" ]; then
      OK[$m]=false; SECS[$m]=0; ERR[$m]="not compiled: import failed:$bad"
      rm -f "$B/$m.olean" "$B/$m.ilean" "$B/meta/$m.stamp"
      continue
    fi
    if ((!HAVE_LEAN)); then OK[$m]=false; SECS[$m]=0; ERR[$m]="lean not found on PATH"; continue; fi
    CACHED[$m]=false
    if ((!FORCE)) && [ -s "$B/$m.olean" ] && [ -r "$B/meta/$m.stamp" ]; then
      read -r k st sec < "$B/meta/$m.stamp"
      if [ "$k" = "${KEY[$m]}" ] && [ "$st" = ok ]; then CACHED[$m]=true; fi
    fi
    if [ "${CACHED[$m]}" = false ]; then
      throttle
      echo "  compiling $m" >&2
      compile_one "$m" &
    fi
  done
  wait
  for m in "${ORDER[@]}"; do
    [ "${LEVEL[$m]}" = "$l" ] || continue
    [ -n "${OK[$m]+x}" ] && continue
    if [ -r "$B/meta/$m.stamp" ]; then
      read -r k st sec < "$B/meta/$m.stamp"
      SECS[$m]="$sec"
      if [ "$st" = ok ] && [ "$k" = "${KEY[$m]}" ]; then OK[$m]=true
      else OK[$m]=false; ERR[$m]="lean reported errors, see build/logs/$m.log: $(grep -m1 -E 'error' "$B/logs/$m.log" 2>/dev/null | cut -c1-200)"; fi
    else
      OK[$m]=false; SECS[$m]=0; ERR[$m]="no result recorded"
    fi
  done
done

# ---- optional: leanchecker (kernel replay of every compiled module on top of its imports) -----------
# One process per module: a single `leanchecker A B C ...` loads Mathlib once per module *inside one
# process* and takes minutes; separate processes take a few seconds in total.
if ((RECHECK)); then
  if command -v leanchecker >/dev/null 2>&1; then
    for m in "${ORDER[@]}"; do
      [ "${OK[$m]}" = true ] || continue
      rm -f "$B/meta/$m.chk"        # never cached: the point is to re-read the .olean files as they are now
      throttle
      echo "  leanchecker $m" >&2
      ( if leanchecker "$m" > "$B/logs/$m.leanchecker.log" 2>&1; then echo "${KEY[$m]} ok"; else echo "${KEY[$m]} fail"; fi > "$B/meta/$m.chk" ) &
    done
    wait
    for m in "${ORDER[@]}"; do
      [ "${OK[$m]}" = true ] || continue
      if [ "$(cat "$B/meta/$m.chk" 2>/dev/null)" = "${KEY[$m]} ok" ]; then CHK[$m]=true
      else CHK[$m]=false; OK[$m]=false; ERR[$m]="leanchecker rejected the module, see build/logs/$m.leanchecker.log"; fi
    done
  else
    echo "build.sh: leanchecker not on PATH, --recheck skipped" >&2
    RECHECK=0
  fi
fi

# ---- #print axioms -----------------------------------------------------------------------------------
AXMODS="$(echo "$THEOREMS" | awk 'NF==2{print $2}' | sort -u)"
for m in $AXMODS; do
  [ "${OK[$m]}" = true ] || continue
  thms="$(echo "$THEOREMS" | awk -v m="$m" 'NF==2 && $2==m{print $1}')"
  akey="$(printf '%s\n%s' "${KEY[$m]}" "$thms" | sha256sum | cut -d' ' -f1)"
  if ((!FORCE)) && [ -r "$B/axioms/Ax_$m.out" ] && [ "$(cat "$B/axioms/Ax_$m.key" 2>/dev/null)" = "$akey" ]; then continue; fi
  { echo "import $m"; for t in $thms; do echo "#print axioms $t"; done; } > "$B/axioms/Ax_$m.lean"
  rm -f "$B/axioms/Ax_$m.key"
  throttle
  echo "  axioms of $m" >&2
  ( cd "$B/axioms" && lean "Ax_$m.lean" > "Ax_$m.out" 2>&1; echo "$akey" > "Ax_$m.key" ) &
done
wait

# ---- stamp -------------------------------------------------------------------------------------------
T1=$(date +%s.%N)
TMP="$B/stamp.json.tmp"
{
  echo "{"
  echo "  \"lean_version\": $(jstr "$LEANVER"),"
  echo "  \"recheck\": $([ $RECHECK = 1 ] && echo true || echo false),"
  echo "  \"total_seconds\": $(elapsed "$T0" "$T1"),"
  asj=""; for a in $ASSUMED; do asj="$asj${asj:+, }\"$a\""; done
  echo "  \"assumed\": [$asj],"
  # mechanical statement check, step 2: a lemma counts iff its `example` in Secp/GenSMT*.lean (which must be the
  # generator's current output) compiled; for a module with errors the failed examples are read off its log
  msc=""
  ((HAVE_PY)) && msc="$(python3 "$GEN" --stamp "GenSMT=${OK[GenSMT]:-false}" "GenSMT2=${OK[GenSMT2]:-false}" 2>/dev/null | grep '^{' | tail -n 1)"
  [ -n "$msc" ] || msc='{"lemmas": 0, "checked": 0, "failed": [], "error": "python3 not found or scripts/gen_statements.py failed"}'
  echo "  \"mechanical_statement_check\": $msc,"
  echo "  \"files\": {"
  n=0
  for m in "${ORDER[@]}"; do
    n=$((n+1)); sep=","; [ $n -eq ${#ORDER[@]} ] && sep=""
    deps=""; for d in ${DEPS[$m]}; do deps="$deps${deps:+, }\"$d.lean\""; done
    line="    \"$m.lean\": {\"sha256\": \"${SHA[$m]}\", \"ok\": ${OK[$m]:-false}, \"seconds\": ${SECS[$m]:-0}, \"cached\": ${CACHED[$m]:-false}, \"imports\": [$deps]"
    [ -n "${CHK[$m]+x}" ] && line="$line, \"leanchecker\": ${CHK[$m]}"
    [ "${OK[$m]}" = true ] || line="$line, \"error\": $(jstr "${ERR[$m]:-unknown}")"
    echo "$line}$sep"
  done
  echo "  },"
  echo "  \"theorems\": {"
  total=$(echo "$THEOREMS" | awk 'NF==2' | wc -l)
  n=0
  echo "$THEOREMS" | awk 'NF==2' | while read -r t m; do
    n=$((n+1)); sep=","; [ $n -eq $total ] && sep=""
    ok=false; axj="[]"; err=""
    if [ -z "${SHA[$m]+x}" ]; then err="file $m.lean is missing"
    elif [ "${OK[$m]}" != true ]; then err="file did not build: ${ERR[$m]}"
    else
      out="$(tr '\n' ' ' < "$B/axioms/Ax_$m.out" 2>/dev/null)"
      tq="$(printf '%s' "$t" | sed 's/\./\\./g')"
      hit="$(printf '%s' "$out" | grep -o "'$tq' depends on axioms: \[[^]]*\]" | head -1)"
      if [ -n "$hit" ]; then
        axs="$(printf '%s' "$hit" | sed -E 's/^.*\[(.*)\]$/\1/' | tr ',' ' ')"
      elif printf '%s' "$out" | grep -q "'$tq' does not depend on any axioms"; then
        axs=""; hit=none
      fi
      if [ -z "$hit" ]; then err="#print axioms gave no answer (theorem not found?)"
      else
        ok=true; axj=""
        for a in $axs; do
          axj="$axj${axj:+, }\"$a\""
          case "$ALLOWED_AXIOMS" in *" $a "*) ;; *) ok=false; err="non-standard axiom $a" ;; esac
        done
        axj="[$axj]"
      fi
    fi
    line="    \"$t\": {\"file\": \"$m.lean\", \"ok\": $ok, \"axioms\": $axj"
    [ -n "$err" ] && line="$line, \"error\": $(jstr "$err")"
    echo "$line}$sep"
  done
  echo "  }"
  echo "}"
} > "$TMP"
mv -f "$TMP" "$B/stamp.json"

nf=0; nfo=0
for m in "${ORDER[@]}"; do nf=$((nf+1)); [ "${OK[$m]}" = true ] && nfo=$((nfo+1)); done
nt=$(grep -c '"file":' "$B/stamp.json"); nto=$(grep '"file":' "$B/stamp.json" | grep -c '"ok": true')
msum="$(grep -m1 '"mechanical_statement_check"' "$B/stamp.json" | sed -E 's/.*"lemmas": ([0-9]+), "checked": ([0-9]+).*/\2\/\1/')"
echo "lemmas: $nfo/$nf files ok, $nto/$nt key theorems ok (standard axioms only), $msum lemma statements mechanically checked, $(elapsed "$T0" "$(date +%s.%N)") s; stamp: $B/stamp.json" >&2
exit 0
