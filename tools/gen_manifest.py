#!/usr/bin/env python3
# Regenerates MANIFEST.json from the table below (kept in one place so the file is always valid).
import json
props=[json.loads(l) for l in open('/verif/properties.jsonl')]
ids=[p['id'] for p in props]
claimed = {
 'C01': ("ladder loop invariant (all 256 iterations, all scalars) over contracts of Bits/add/Double; group-law lemmas", "4 C01"),
 'C02': ("ring-mode polynomial identity of the real formula code against the closed RCB polynomials for all field inputs and all aliasings; group-level postconditions through the Lean-proved completeness lemmas", "4 C02"),
 'C03': ("acceptance predicates from the property statement as postconditions of every decoder, for every input length class and byte content; frame obligation 'receiver unchanged on error'", "4 C03"),
 'C04': ("encoder postconditions stated as functions of the abstract point only (representation independence is the contract)", "4 C04"),
 'C05': ("cross-multiplication postcondition + projective equality lemma", "4 C05"),
 'C06': ("staged Montgomery proofs of the Fiat limb code, exact unrolling of the inversion chain in the exponent domain, scalar API contracts under all aliasings", "4 C06"),
 'C10': ("data-refinement obligations: every constructor establishes the representation invariant, every method preserves it and has a proved frame", "4 C10"),
 'C12': ("staged Montgomery proofs, bit-vector proofs of the mask/borrow code, exponent-domain unrolling of both addition chains, ring-mode sqrt_ratio", "4 C12"),
 'C13': ("integer-semantics postconditions of Equal/IsZero/IsOne/LessOrEqual/CSelect for all 64-bit condition words", "4 C13"),
 'C14': ("256 per-position postconditions over the FromMontgomery contract", "4 C14"),
 'C07': ("encode/decode postconditions for every input length class (including an 'any other length' class) and byte content, distinct error values, hex variants through a trusted hex model", "4 C07"),
 'C08': ("expand_message_xmd proved equal to the RFC 5.3.1 definition over an uninterpreted SHA-256 for every message and DST length class (incl. oversize), then hash_to_field, SSWU, chord addition and isogeny composed by contracts", "4 C08"),
 'C09': ("the same expander contract plus the wide-reduction postcondition of the scalar field", "4 C09"),
 'C11': ("ring-mode identity of SSWU with a transcription of RFC 9380 F.2 (all u, incl. the exceptional branch) and of the isogeny with E.1; on-curve and sign facts by Lean-proved lemmas", "4 C11"),
 'C15': ("frame obligations of every exported function: cells of every caller-owned object outside the receiver unchanged, appends into spare capacity modelled, returned slices fresh", "4 C15"),
 'C16': ("the C15 frame obligations plus 'no package-level variable is ever assigned'; no reference to a package-level variable escapes; determinism under any order of the calls follows from disjoint write frames (Lean: SecpMeta.any_order_same) and the Go memory model's DRF-SC guarantee", "4 C16"),
 'C17': ("call-site precondition registered(SHA-256) of crypto.Hash.New discharged from the package's own import closure in every build configuration", "4 C17"),
 'C18': ("loop invariant over a ghost entropy stream: result is the first block with non-zero residue, reduced; read failure is the only panic", "4 C18"),
 'C19': ("schedule-uniformity obligations: within every function reachable from Multiply all paths enter the same module functions in the same order; only the documented k=1 shortcut may bypass the ladder", "4 C19"),
}
notes = {
 'C08': "Assumption: hash_no_x_collision (the two SSWU outputs of one HashToGroup call have different x; the library's affine addition on E' is not complete there) is a precondition no caller can discharge. SHA-256 is an uninterpreted function. ",
 'C09': "SHA-256 is an uninterpreted function. ",
 'C10': "The obligations are the per-operation refinement conditions (constructors establish the invariant, methods preserve it, frames) plus history lemma programs; the induction over the length of a history is the generic Lean theorem SecpMeta.observations_agree_pre_prefix (lemmas/Secp/SecpMeta.lean), instantiated informally with the pool semantics of Go method calls. ",
 'C16': "No model of goroutines: the obligations are the write frames of every exported function and 'no package-level variable is assigned'; the obligations also include 'no reference to a package-level variable escapes'. That operations with disjoint write frames and read-only shared arguments commute and each write what they would write alone is proved in Lean (SecpMeta.ops_commute, any_order_same); the step from goroutines to an order of whole operations is the Go memory model's DRF-SC guarantee (not formalised). ",
 'C17': "The registered-hash precondition is discharged from the package's import graph ('some file compiled in every configuration imports crypto/sha256', else go list -deps under the configuration analysed; the cone is re-run under each of six alternative build configurations whose file set differs from linux/amd64); the step from 'linked' to 'registered' is the documented behaviour of crypto/sha256's init. ",
 'C18': "crypto/rand.Reader and io.ReadFull are modelled by a ghost stream of 32-byte blocks with an optional read failure. Termination on an all-zero stream is not claimed. ",
 'C19': "The observable is the sequence of module-function entries (the property's own observable), not cycles or cache behaviour. ",
 'C15': "Slices are modelled per length class with symbolic spare capacity; partial overlap between two different slice arguments is not modelled. ",
}
checks=[]
for pid,(text,ref) in claimed.items():
    checks.append({
     "property_id": pid,
     "quick_cmd": f"bin/vcheck prop {pid} --tier quick",
     "thorough_cmd": f"bin/vcheck prop {pid} --tier thorough",
     "evidence_file": f"/verif/evidence/{pid}.json",
     "replay_cmd_template": "bin/vcheck replay {path}",
     "engine": "vcheck",
     "level_claimed": {"category":"proof","text":"Contract-based deductive verification of the real source: "+text+". Every obligation is an SMT query generated from /repo's current text and discharged by z3/cvc5 for all inputs, aliasings and iterations.","design_ref":"DESIGN.md section "+ref},
     "level_note": notes.get(pid, "") + "Trusted: the VC generator's Go semantics (stated subset, 64-bit int, whole-object aliasing enumerated), the SMT solvers (raced; thorough runs all three and rejects disagreement), the stdlib models reached (listed per run in the evidence file), and the translation of the SMT-side lemma statements into the Lean theorems that prove them (all lemmas are Lean-proved; status per run in the evidence file). Guards run by the check itself: path-feasibility (vacuity) obligations, baseline of obligation names; thorough adds the must-fail corpus and a bounded contract sweep on the real code.",
     "technique": "contract-based deductive verification (self-built WP/symbolic-execution VC generator over go/ast+go/types, contracts in //go:build verif comment files, z3 4.8/5.1 + cvc5 racing, Lean 4 for the mathematical lemmas)"
    })
na=[{"property_id":i,"reason":"no check registered"} for i in ids if i not in claimed]
m={"version":1,
 "setup_cmd":"bash /verif/setup.sh",
 "hooks":{"guard":"verif","enable":"contracts are comment-only files (contracts_verif.go in each package) behind //go:build verif; the engine parses /repo with the tag on; nothing is compiled into the library","baseline_off_cmd":"cd /repo && GOFLAGS=-mod=mod GOPROXY=off GOSUMDB=off go test -json -vet=off -count=1 -timeout 25m ./...","source_commits":[],"add_only":True},
 "engines":[{"name":"vcheck","path":"/verif/engine","serves_properties":list(claimed.keys()),"kind_free_text":"VC generator + SMT discharge (Go, std library only)"}],
 "checks":checks,
 "not_applicable":na,
 "notes":"Six genuine defects of the pinned tree were repaired by fix: commits (known_findings.json); every property is claimed, none is not-applicable. DESIGN.md section 0 describes the machinery as built."}
import subprocess
try:
    out=subprocess.check_output(['git','-C','/repo','log','--format=%h %s'],text=True)
    m['hooks']['source_commits']=[l.split()[0] for l in out.splitlines() if 'verif hooks' in l]
except Exception: pass
json.dump(m,open('/verif/MANIFEST.json','w'),indent=1)
print(len(checks),'checks',len(na),'n/a')
