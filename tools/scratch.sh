#!/bin/bash
# usage: scratch.sh <patch-or-sed-script> -- vcheck args...   ; applies a patch to a scratch copy of /repo and runs vcheck on it
set -e
P="$1"; shift; [ "$1" = "--" ] && shift
D=$(mktemp -d /tmp/scr.XXXXXX)
rsync -a --exclude .git /repo/ $D/repo/
if [ -f "$P" ]; then (cd $D/repo && patch -p1 -s < "$P"); else (cd $D/repo && bash -c "$P"); fi
VERIF_REPO=$D/repo /verif/bin/vcheck "$@" || true
rm -rf $D
