#!/bin/bash
# usage: green_try.sh <patch.diff> [props...] : applies a (supposedly semantics-preserving) patch to a scratch copy of
# /repo and runs the quick checks against it in parallel; prints "green" or the alarms raised.
P="$1"; shift
PROPS="$@"
cd /verif
[ -z "$PROPS" ] && PROPS=$(python3 -c "import json;print(' '.join(c['property_id'] for c in json.load(open('MANIFEST.json'))['checks']))" 2>/dev/null)
D=$(mktemp -d /tmp/green.XXXXXX); rsync -a --exclude .git /repo/ $D/repo/
(cd $D/repo && patch -p1 -s < "$P" && GOFLAGS=-mod=mod GOPROXY=off GOSUMDB=off GOTOOLCHAIN=local go build ./... ) || { echo "$P: does not apply/build"; rm -rf $D; exit 3; }
export D
echo $PROPS | tr ' ' '\n' | xargs -P 6 -I{} bash -c 'out=$(VERIF_REPO=$D/repo VERIF_NOEVIDENCE=1 /verif/bin/vcheck prop {} 2>&1); if echo "$out" | grep -q "VIOLATION\|ENGINE-ERROR"; then echo "{}: $(echo "$out" | grep "obligation\|ENGINE" | head -3 | cut -c1-220 | tr "\n" " ")"; fi' > $D/out.txt
if [ -s $D/out.txt ]; then echo "$P: ALARM"; sort $D/out.txt; else echo "$P: green"; fi
rm -rf $D
