#!/bin/bash
# usage: try_seeded_scratch.sh <glob under seeded/> : applies each seeded change to a scratch copy (never to /repo)
# and runs the quick check of its property against the copy.
cd /verif
one() {
  d=$1; name=$(basename $d); prop=${name%%-*}
  D=$(mktemp -d /tmp/seedtry.XXXXXX); rsync -a --exclude .git /repo/ $D/repo/
  (cd $D/repo && git apply --no-index $d/patch.diff 2>/dev/null || patch -p1 -s < $d/patch.diff) || { echo "$name: patch does not apply"; rm -rf $D; return; }
  out=$(VERIF_REPO=$D/repo VERIF_NOEVIDENCE=1 /verif/bin/vcheck prop $prop 2>&1)
  n=$(echo "$out" | grep -c "^VIOLATION")
  conf=$(echo "$out" | grep "^VIOLATION" | grep -vc "no-failing-input-found")
  first=$(echo "$out" | grep "^  obligation" | head -3 | cut -c1-170 | tr '\n' ';')
  echo "$name: violations=$n replay-confirmed=$conf $(echo "$out" | grep -c ENGINE-ERROR | sed 's/^0$//;s/^[1-9].*/ENGINE-ERROR/') :: $first"
  rm -rf $D
}
export -f one
ls -d seeded/$1 | xargs -P 4 -I{} bash -c 'one /verif/{}'
