#!/bin/bash
# Applies each seeded change to /repo, runs the quick check of the property it breaks, undoes it, and records
# which obligations reported it in /verif/seeded/RESULTS.md.
cd /verif
if [ -n "$(git -C /repo status --porcelain)" ]; then echo "refusing to run: /repo has uncommitted changes (they would be lost by the undo step)"; exit 2; fi
out=seeded/RESULTS.md
[ -n "$1" ] && out=/tmp/seeded-partial.md
echo "| change | property | caught | violations replayed on the real code | failed obligations |" > $out; echo "|---|---|---|---|---|" >> $out
for d in seeded/C*/; do
  name=$(basename $d); prop=${name%%-*}
  [ -n "$1" ] && [[ "$name" != $1 ]] && continue
  git -C /repo apply /verif/$d/patch.diff || { echo "| $name | $prop | patch failed | | |" >> $out; continue; }
  res=$(VERIF_NOEVIDENCE=1 timeout 1800 bin/vcheck prop $prop --tier quick 2>&1)
  git -C /repo checkout -- . ; git -C /repo clean -fdq
  obs=$(echo "$res" | grep "^  obligation" | sed 's/^  obligation //' | cut -c1-110 | head -4 | tr '\n' ';')
  if echo "$res" | grep -q "^VIOLATION property=$prop"; then c=yes; else c=NO; fi
  nv=$(echo "$res" | grep -c "^VIOLATION"); nr=$(echo "$res" | grep "^VIOLATION" | grep -vc "no-failing-input-found")
  echo "| $name | $prop | $c | $nr of $nv | $obs |" >> $out
  echo "$name $c"
done
