#!/bin/bash
# Re-records the list of obligations discharged on the current (delivered) tree for every claimed property.
cd /verif
for p in $(python3 -c "import json;print(' '.join(c['property_id'] for c in json.load(open('MANIFEST.json'))['checks']))"); do
  bin/vcheck prop $p --update-baseline | tail -1
done
