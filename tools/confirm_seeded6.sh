#!/bin/bash
# usage: confirm_seeded6.sh <Cxx> <demo dir relative to the module root, e.g. . or internal/field> [extra go test flags, e.g. -race]
# Confirms the round-6 candidate under /tmp/r6-<Cxx>/_out in a fresh scratch worktree: suite passes with the change,
# demo fails with it, demo passes without it. A confirmed change is kept as /verif/seeded/<Cxx>-r6a.
export GOFLAGS=-mod=mod GOPROXY=off GOSUMDB=off GOTOOLCHAIN=local
id=$1; dir=${2:-.}; extra=$3
d=/tmp/r6-$id/_out
[ -f $d/patch.diff ] || { echo "$id: no patch.diff"; exit 1; }
name=$id-r6a
wt=/tmp/confirm-$name
git -C /repo worktree add -q --detach $wt HEAD || exit 1
(
  cd $wt
  dp=$dir/zz_demo_r6_test.go
  dc="go test $extra -vet=off -count=1 -timeout 600s -run 'TestDemoR6\$' ./$dir"
  cp $d/demo_test.go $dp
  base=$(bash -c "$dc" >/tmp/confirm-$name.clean.log 2>&1 && echo pass || echo fail)
  git apply $d/patch.diff || { echo "$name: patch does not apply"; exit 0; }
  mv $dp /tmp/demo-$name.go
  suite=$(go test -vet=off -count=1 ./... >/dev/null 2>&1 && echo pass || echo fail)
  mv /tmp/demo-$name.go $dp
  mut=$(bash -c "$dc" >/tmp/confirm-$name.mut.log 2>&1 && echo pass || echo fail)
  echo "$name: demo-on-clean=$base suite-with-change=$suite demo-with-change=$mut"
  if [ $base = pass ] && [ $suite = pass ] && [ $mut = fail ]; then
    mkdir -p /verif/seeded/$name
    cp $d/patch.diff $d/demo_test.go /verif/seeded/$name/
    echo "$dp" > /verif/seeded/$name/demo_path.txt
    echo "$dc" > /verif/seeded/$name/demo_cmd.txt
    DC="$dc" D="$d" NAME="$name" BASE="$(git -C /repo rev-parse --short HEAD)" python3 - <<'PY'
import json,os
m=json.load(open(os.environ['D']+'/meta.json'))
m['confirmed']={'worktree_base':os.environ['BASE'],'demo_on_clean':'pass','suite_with_change':'pass','demo_with_change':'fail','ran':'go test -vet=off -count=1 ./... ; '+os.environ['DC']}
json.dump(m,open('/verif/seeded/'+os.environ['NAME']+'/meta.json','w'),indent=1)
PY
  else
    tail -15 /tmp/confirm-$name.clean.log /tmp/confirm-$name.mut.log
  fi
)
rm -f /tmp/confirm-$name.clean.log /tmp/confirm-$name.mut.log
git -C /repo worktree remove --force $wt
