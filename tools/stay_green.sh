#!/bin/bash
# Semantics-preserving edits must not raise an alarm: applies each to a scratch copy and runs every quick check.
cd /verif
for d in selftest/stay_green/*.diff; do
  D=$(mktemp -d /tmp/green.XXXXXX); rsync -a --exclude .git /repo/ $D/repo/
  (cd $D/repo && patch -p1 -s < /verif/$d && GOFLAGS=-mod=mod GOPROXY=off go build ./... ) || { echo "$d: does not apply/build"; rm -rf $D; continue; }
  bad=""
  for p in $(python3 -c "import json;print(' '.join(c['property_id'] for c in json.load(open('MANIFEST.json'))['checks']))"); do
    out=$(VERIF_REPO=$D/repo VERIF_NOEVIDENCE=1 bin/vcheck prop $p 2>&1)
    if echo "$out" | grep -q "VIOLATION\|ENGINE-ERROR"; then bad="$bad $p:[$(echo "$out" | grep 'obligation\|ENGINE' | head -2 | cut -c1-160 | tr '\n' ' ')]"; fi
  done
  echo "$(basename $d): ${bad:-green}"
  rm -rf $D
done
