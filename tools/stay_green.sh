#!/bin/bash
# Semantics-preserving edits must not raise an alarm: applies each patch of selftest/stay_green to a scratch copy of
# /repo and runs every quick check against the copy (tools/green_try.sh). Optional argument: a glob of patch names.
cd /verif
for d in selftest/stay_green/${1:-*}.diff; do
  tools/green_try.sh /verif/$d 2>&1 | grep -v "^WARNING" | sed "s|/verif/selftest/stay_green/||"
done
