#!/bin/bash
# Confirms every candidate change under /tmp/mut/<id>.out/<k>/ in a fresh scratch worktree:
# suite passes with the change, demo fails with it, demo passes without it. Keeps confirmed ones in /verif/seeded/.
export GOFLAGS=-mod=mod GOPROXY=off GOSUMDB=off GOTOOLCHAIN=local
for d in /tmp/mut5/C*.out/*/; do
  id=$(basename $(dirname $d)); id=${id%.out}; k=$(basename $d)
  [ -f $d/patch.diff ] || continue
  name=$id-r5$k
  [ -d /verif/seeded/$name ] && continue
  wt=/tmp/confirm-$name
  git -C /repo worktree add -q --detach $wt HEAD || continue
  (
    cd $wt
    dp=$(cat $d/demo_path.txt | tr -d '\n '); dc=$(cat $d/demo_cmd.txt | head -1)
    cp $d/demo_test.go $dp
    base=$(bash -c "$dc" >/dev/null 2>&1 && echo pass || echo fail)
    git apply $d/patch.diff || { echo "$name: patch does not apply"; exit 0; }
    mv $dp /tmp/demo-$name.go
    suite=$(go test -vet=off -count=1 ./... >/dev/null 2>&1 && echo pass || echo fail)
    mv /tmp/demo-$name.go $dp
    mut=$(bash -c "$dc" >/dev/null 2>&1 && echo pass || echo fail)
    echo "$name: demo-on-clean=$base suite-with-change=$suite demo-with-change=$mut"
    if [ $base = pass ] && [ $suite = pass ] && [ $mut = fail ]; then
      mkdir -p /verif/seeded/$name
      cp $d/patch.diff $d/demo_test.go $d/demo_path.txt $d/demo_cmd.txt /verif/seeded/$name/
      DC="$dc" D="$d" NAME="$name" BASE="$(git -C /repo rev-parse --short HEAD)" python3 - <<'PY'
import json,os
m=json.load(open(os.environ['D']+'/meta.json'))
m['confirmed']={'worktree_base':os.environ['BASE'],'demo_on_clean':'pass','suite_with_change':'pass','demo_with_change':'fail','ran':'go test -vet=off -count=1 ./... ; '+os.environ['DC']}
json.dump(m,open('/verif/seeded/'+os.environ['NAME']+'/meta.json','w'),indent=1)
PY
    fi
  )
  git -C /repo worktree remove --force $wt
done
