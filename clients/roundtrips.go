//go:build verif

// Lemma programs: tiny client functions that are never compiled into the library (this directory is outside /repo).
// The engine adds them to package secp256k1 when it type-checks /repo and verifies them like any other function:
// every call is replaced by the callee's contract. They turn the "consequently ..." parts of the property
// statements (round trips, symmetry, bit expansion vs. encoding) into explicit proof obligations over the contracts.

package secp256k1

//@ lemma same_x_parity(g, h) {lean: SecpSMT.same_x_parity}: imp(g != gzero() && h != gzero() && affx(g) == affx(h) && fint(affy(g)) % 2 == fint(affy(h)) % 2, g == h)
//@ lemma same_xy(g, h) {lean: SecpSMT.same_xy}: imp(g != gzero() && h != gzero() && affx(g) == affx(h) && affy(g) == affy(h), g == h)
//@ lemma aff_on_curve(g) {lean: SecpSMT.aff_on_curve}: imp(g != gzero(), affy(g)*affy(g) == secp_poly(affx(g)) && g == aff(affx(g), affy(g)))
//@ lemma issq_of_sq(y, v) {lean: SecpSMT.issq_of_sq}: imp(y*y == v, issq(v))
//@ lemma fofint_eq(n, a) {lean: SecpSMT.fofint_eq}: imp(n == fint(a), fofint(n) == a)
//@ lemma bits_total(v) {lean: SecpSMT.bits_total}: imp(0 <= v && v < pow2(256), bitsumf(v, 256) == v)
//@ lemma add_neg_cancel(p, q) {lean: add_neg_cancel_right}: gadd(gadd(p, q), gneg(q)) == p
//@ lemma ninv_mul(x) {lean: inv_mul_cancel}: imp(x != Fn(0), nmul(ninv(x), x) == Fn(1))

// Decode(Encode(P)) = P for every element P in every representation (C04).
func verifRoundTripCompressed(e, f *Element) error {
	b := e.Encode()
	return f.Decode(b)
}

//@ func verifRoundTripCompressed
//@   mode int
//@   noalias
//@   requires inv(e) && wf3(f)
//@   uses fint_range(affx(pt(e))), fint_range(affy(pt(e))), aff_on_curve(pt(e)), issq_of_sq(affy(pt(e)), secp_poly(affx(pt(e))))
//@   ensures acc [C04]: result == 0 by fofint_eq(os2ip(b[1:33]), affx(old(pt(e))))
//@   ensures rt [C04]: imp(result == 0, inv(f) && pt(f) == pt(e)) by same_x_parity(pt(f), old(pt(e)))
//@   modifies *f

// Decode(EncodeUncompressed(P)) = P (C04).
func verifRoundTripUncompressed(e, f *Element) error {
	b := e.EncodeUncompressed()
	return f.Decode(b)
}

//@ func verifRoundTripUncompressed
//@   mode int
//@   noalias
//@   requires inv(e) && wf3(f)
//@   uses fint_range(affx(pt(e))), fint_range(affy(pt(e))), aff_on_curve(pt(e))
//@   ensures acc [C04]: result == 0 by fofint_eq(os2ip(b[1:33]), affx(old(pt(e)))), fofint_eq(os2ip(b[33:65]), affy(old(pt(e))))
//@   ensures rt [C04]: imp(result == 0, inv(f) && pt(f) == pt(e)) by fofint_eq(os2ip(b[1:33]), affx(old(pt(e)))), fofint_eq(os2ip(b[33:65]), affy(old(pt(e))))
//@   modifies *f

// Equal is symmetric (C05).
func verifEqualSymmetric(e, u *Element) (int, int) {
	return e.Equal(u), u.Equal(e)
}

//@ func verifEqualSymmetric
//@   mode int
//@   requires inv(e) && inv(u)
//@   ensures sym [C05]: result0 == result1

// Decode(Encode(s)) = s for scalars (C07).
func verifScalarRoundTrip(s, t *Scalar) error {
	b := s.Encode()
	return t.Decode(b)
}

//@ func verifScalarRoundTrip
//@   mode int
//@   requires wfs(s) && wfs(t)
//@   uses nint_range(old(sv(s))), nofint_fint(fint(old(sv(s))))
//@   ensures rt [C07]: result == 0 && fint(sv(t)) == fint(old(sv(s)))
//@   modifies *t

// Encode(Decode(b)) = b for every accepted 32-byte string (C07).
func verifScalarRoundTripBytes(s *Scalar, in []byte) ([]byte, error) {
	if err := s.Decode(in); err != nil {
		return nil, err
	}
	return s.Encode(), nil
}

//@ func verifScalarRoundTripBytes
//@   mode int
//@   lens in 32
//@   requires wfs(s)
//@   ensures rt [C07]: imp(result1 == 0, os2ip(result0) == os2ip(in))
//@   modifies *s

// The bit expansion and the canonical encoding describe the same integer (C14).
func verifBitsVsEncode(s *Scalar) ([256]uint8, []byte) {
	return s.Bits(), s.Encode()
}

//@ func verifBitsVsEncode
//@   mode int
//@   requires wfs(s)
//@   uses nint_range(sv(s)), bits_total(fint(sv(s)))
//@   ensures sum [C14]: bitsum(result0, 256) == os2ip(result1)

// (P + Q) - Q = P, the argument is untouched (C10, C02).
func verifAddThenSubtract(e, q *Element) *Element {
	e.Add(q)
	return e.Subtract(q)
}

//@ func verifAddThenSubtract
//@   mode int
//@   requires inv(e) && inv(q)
//@   uses add_neg_cancel(pt(e), pt(q))
//@   ensures back [C10]: inv(e) && imp(!same(e, q), pt(e) == old(pt(e)))
//@   modifies *e
//@   returns e

// A copy is independent of its source (C10).
func verifCopyIndependent(e *Element) *Element {
	c := e.Copy()
	e.Double()
	return c
}

//@ func verifCopyIndependent
//@   mode int
//@   requires inv(e)
//@   ensures indep [C10]: inv(result) && pt(result) == old(pt(e)) && inv(e) && pt(e) == gadd(old(pt(e)), old(pt(e)))
//@   modifies *e
//@   returns fresh

// Set copies the value, it does not share storage (C10).
func verifSetIndependent(e, u *Element) *Element {
	e.Set(u)
	u.Double()
	return e
}

//@ func verifSetIndependent
//@   mode int
//@   noalias
//@   requires wf3(e) && inv(u)
//@   ensures indep [C10]: inv(e) && pt(e) == old(pt(u)) && pt(u) == gadd(old(pt(u)), old(pt(u)))
//@   modifies *e, *u
//@   returns e

// s * s^-1 = 1 for every s != 0 (C06).
func verifInvertThenMultiply(s *Scalar) *Scalar {
	t := s.Copy()
	t.Invert()
	return t.Multiply(s)
}

//@ func verifInvertThenMultiply
//@   mode int
//@   requires wfs(s)
//@   uses ninv_mul(sv(s))
//@   ensures one [C06]: wfs(result) && imp(sv(s) != Fn(0), sv(result) == Fn(1))
//@   returns fresh

// [0]P = identity for every P, through the public constructors (C01).
func verifMultiplyByZero(e *Element) *Element {
	return e.Multiply(NewScalar())
}

//@ lemma smul_gzero(k) {lean: smul_zero}: smul(k, gzero()) == gzero()
//@ func verifMultiplyByZero
//@   mode int
//@   requires inv(e)
//@   uses smul_zero(pt(e))
//@   ensures zero [C01]: inv(e) && pt(e) == gzero()
//@   modifies *e
//@   returns e

// [k]identity = identity for every scalar k (C01).
func verifMultiplyIdentity(s *Scalar) *Element {
	return NewElement().Multiply(s)
}

//@ func verifMultiplyIdentity
//@   mode int
//@   requires wfs(s)
//@   uses smul_gzero(fint(sv(s)))
//@   ensures id [C01]: inv(result) && pt(result) == gzero()
//@   returns fresh

// [1]P = P (the documented shortcut) (C01).
func verifMultiplyByOne(e *Element) *Element {
	return e.Multiply(NewScalar().One())
}

//@ func verifMultiplyByOne
//@   mode int
//@   requires inv(e)
//@   uses smul_one(pt(e))
//@   ensures one [C01]: inv(e) && pt(e) == old(pt(e))
//@   modifies *e
//@   returns e

// CSelect with any non-zero condition word selects the second operand, with 0 the first (C13).
func verifCSelectMask(s, u, v *Scalar) (error, error) {
	e1 := s.CSelect(0xffffffffffffffff, u, v)
	t := NewScalar()
	e2 := t.CSelect(0, s, v)
	return e1, e2
}

//@ func verifCSelectMask
//@   mode int
//@   requires wfs(s) && wfs(u) && wfs(v)
//@   ensures sel [C13]: result0 == 0 && result1 == 0 && sv(s) == old(sv(v))
//@   modifies *s
