//go:build verif

// Conformance programs for the trusted models of the standard library (DESIGN 3.8). Each wrapper calls one modelled
// function and states, as an ordinary contract, what the library's contracts rely on. The engine proves the contract
// from its model of the function (so the model implies the statement), and the bounded contract sweep runs the real
// standard-library function on boundary-biased vectors and evaluates the same statement on the observed results (so
// the statement is true of the real function on everything sampled). A model that promised more than the real
// function delivers fails the sweep; a statement the model cannot deliver fails the proof.

package secp256k1

import (
	"bytes"
	"crypto"
	"crypto/rand"
	"crypto/sha256"
	"io"
	"math/big"
	"slices"
	"crypto/subtle"
	"encoding/binary"
	"encoding/hex"
	"math/bits"
)

func verifStdAdd64(x, y, c uint64) (uint64, uint64) { return bits.Add64(x, y, c) }

//@ func verifStdAdd64
//@   mode int
//@   requires c <= 1
//@   ensures sum: result0 + pow2(64)*result1 == x + y + c
//@   ensures carry: result1 <= 1

func verifStdSub64(x, y, b uint64) (uint64, uint64) { return bits.Sub64(x, y, b) }

//@ func verifStdSub64
//@   mode int
//@   requires b <= 1
//@   ensures diff: result0 - pow2(64)*result1 == x - y - b
//@   ensures borrow: result1 <= 1

func verifStdMul64(x, y uint64) (uint64, uint64) { return bits.Mul64(x, y) }

//@ func verifStdMul64
//@   mode bv
//@   ensures prod: result0*pow2(64) + result1 == x * y

func verifStdAdd64bv(x, y, c uint64) (uint64, uint64) { return bits.Add64(x, y, c) }

//@ func verifStdAdd64bv
//@   mode bv
//@   requires c <= 1
//@   ensures sum: result0 + pow2(64)*result1 == x + y + c
//@   ensures carry: result1 <= 1

func verifStdSub64bv(x, y, b uint64) (uint64, uint64) { return bits.Sub64(x, y, b) }

//@ func verifStdSub64bv
//@   mode bv
//@   requires b <= 1
//@   ensures diff: result0 + y + b == x + pow2(64)*result1
//@   ensures borrow: result1 <= 1

func verifStdUint64(b []byte) uint64 { return binary.BigEndian.Uint64(b) }

//@ func verifStdUint64
//@   mode int
//@   lens b 8
//@   requires len(b) == 8
//@   ensures v: result == os2ip(b)

func verifStdPutUint64(b []byte, v uint64) { binary.BigEndian.PutUint64(b, v) }

//@ func verifStdPutUint64
//@   mode int
//@   lens b 8
//@   requires len(b) == 8
//@   ensures v: os2ip(b) == v
//@   modifies b

func verifStdPutUint16(b []byte, v uint16) { binary.BigEndian.PutUint16(b, v) }

//@ func verifStdPutUint16
//@   mode int
//@   lens b 2
//@   requires len(b) == 2
//@   ensures v: os2ip(b) == v
//@   modifies b

func verifStdSelect(v, x, y int) int { return subtle.ConstantTimeSelect(v, x, y) }

//@ func verifStdSelect
//@   mode int
//@   requires v == 0 || v == 1
//@   ensures sel: result == ite(v == 1, x, y)

func verifStdEq(x, y int32) int { return subtle.ConstantTimeEq(x, y) }

//@ func verifStdEq
//@   mode int
//@   ensures eq: result == ite(x == y, 1, 0)

func verifStdByteEq(x, y uint8) int { return subtle.ConstantTimeByteEq(x, y) }

//@ func verifStdByteEq
//@   mode int
//@   ensures eq: result == ite(x == y, 1, 0)

func verifStdLessOrEq(x, y int) int { return subtle.ConstantTimeLessOrEq(x, y) }

//@ func verifStdLessOrEq
//@   mode int
//@   requires 0 <= x && x < pow2(31) && 0 <= y && y < pow2(31)
//@   ensures le: result == ite(x <= y, 1, 0)

func verifStdCompare(x, y []byte) (int, bool) { return subtle.ConstantTimeCompare(x, y), bytes.Equal(x, y) }

//@ func verifStdCompare
//@   mode int
//@   lens x 4
//@   lens y 4,5
//@   requires len(x) == 4 && (len(y) == 4 || len(y) == 5)
//@   ensures cmp: imp(len(y) == 4, result0 == ite(os2ip(x) == os2ip(y), 1, 0))
//@   ensures eq: imp(len(y) == 4, result1 == (os2ip(x) == os2ip(y)))
//@   ensures ne: imp(len(y) == 5, result0 == 0 && !result1)

func verifStdCopy(v int, x, y []byte) { subtle.ConstantTimeCopy(v, x, y) }

//@ func verifStdCopy
//@   mode int
//@   lens x 4
//@   lens y 4
//@   requires (v == 0 || v == 1) && len(x) == 4 && len(y) == 4
//@   ensures cp: os2ip(x) == ite(v == 1, old(os2ip(y)), old(os2ip(x)))
//@   modifies x

func verifStdHexRoundTrip(b []byte) ([]byte, error) { return hex.DecodeString(hex.EncodeToString(b)) }

//@ func verifStdHexRoundTrip
//@   mode int
//@   lens b 32
//@   requires len(b) == 32
//@   ensures rt: result1 == 0 && len(result0) == 32 && os2ip(result0) == os2ip(b)

func verifStdSha(a, b []byte) []byte {
	h := crypto.SHA256.New()
	h.Write(a)
	h.Write(b)
	return h.Sum(nil)
}

//@ func verifStdSha
//@   mode int
//@   ensures h: bytes_eq(result, strcells(H(cat(str(a), str(b))), 32))
//@   returns fresh:32

func verifStdAppendUint64(b []byte, v uint64, w uint32) []byte {
	out := make([]byte, 0, 12)
	out = binary.BigEndian.AppendUint64(out, v)
	return binary.BigEndian.AppendUint32(out, w)
}

//@ func verifStdAppendUint64
//@   mode int
//@   ensures v: len(result) == 12 && os2ip(result[0:8]) == v && os2ip(result[8:12]) == w
//@   returns fresh:12

func verifStdLittle(b []byte, v uint64) uint32 {
	binary.LittleEndian.PutUint64(b, v)
	return binary.LittleEndian.Uint32(b[0:4])
}

//@ func verifStdLittle
//@   mode int
//@   lens b 8
//@   requires len(b) == 8
//@   ensures v: result == v % pow2(32)
//@   ensures b: b[0] == v % 256 && b[7] == v / pow2(56)
//@   modifies b

func verifStdReadFull(buf []byte) (int, error) { return io.ReadFull(rand.Reader, buf) }

//@ func verifStdReadFull
//@   mode int
//@   lens buf 32
//@   requires len(buf) == 32 && !rndfail
//@   ensures ok: imp(result1 == 0, result0 == 32 && rnd == old(rnd) + 1 && os2ip(buf) == rndblock(old(rnd)) && !rndfail)
//@   ensures fail: imp(result1 != 0, rndfail)
//@   modifies buf, rnd, rndfail

func verifStdBigPow(a, e []byte) []byte {
	order := new(big.Int).SetBytes(Order())
	x := big.NewInt(0).SetBytes(a)
	y := big.NewInt(0).SetBytes(e)
	x.Exp(x, y, order)
	return x.Bytes()
}

//@ func verifStdBigPow
//@   mode int
//@   lens a 32
//@   lens e 32
//@   requires len(a) == 32 && len(e) == 32
//@   ensures v: os2ip(result) == powmod(os2ip(a), os2ip(e), N)
//@   ensures minimal: len(result) <= 32 && (len(result) == 0 || result[0] != 0)

func verifStdGrow(b []byte) []byte { return slices.Grow(b, 3) }

//@ func verifStdGrow
//@   mode int
//@   lens b 4
//@   requires len(b) == 4
//@   ensures same: len(result) == 4 && os2ip(result) == os2ip(b)

func verifStdSha2(a, b []byte) ([]byte, [32]byte, int) {
	h := sha256.New()
	h.Write(a)
	h.Write(b)
	return h.Sum(nil), sha256.Sum256(a), h.Size() + h.BlockSize()
}

//@ func verifStdSha2
//@   mode int
//@   ensures h: bytes_eq(result0, strcells(H(cat(str(a), str(b))), 32))
//@   ensures s: bytes_eq(result1, strcells(H(str(a)), 32))
//@   ensures n: result2 == 96

func verifStdXor(d, x, y []byte, a, b uint64) (int, uint64, uint64) {
	n := subtle.XORBytes(d, x, y)
	return n, min(a, b), max(a, b)
}

//@ func verifStdXor
//@   mode int
//@   lens d 4
//@   lens x 4
//@   lens y 4
//@   noalias
//@   requires len(d) == 4 && len(x) == 4 && len(y) == 4
//@   ensures n: result0 == 4 && forall(i, 0, 4, d[i] == xor8(old(x[i]), old(y[i])))
//@   ensures mm: result1 == ite(a < b, a, b) && result2 == ite(a < b, b, a)
//@   modifies d

func verifStdClone(b []byte) ([]byte, bool) {
	c := slices.Clone(b)
	clear(b)
	return c, slices.Equal(c, b)
}

//@ func verifStdClone
//@   mode int
//@   lens b 4
//@   requires len(b) == 4
//@   ensures c: len(result0) == 4 && os2ip(result0) == old(os2ip(b)) && os2ip(b) == 0
//@   ensures e: result1 == (old(os2ip(b)) == 0)
//@   modifies b

func verifStdBits(x uint64) (int, int, int, int, uint64, uint64) {
	return bits.Len64(x), bits.LeadingZeros64(x), bits.TrailingZeros64(x), bits.OnesCount64(x), bits.ReverseBytes64(x), bits.RotateLeft64(x, 13)
}

//@ func verifStdBits
//@   mode bv
//@   ensures len: result0 + result1 == 64 && (x == 0) == (result0 == 0) && imp(x != 0, x >> (result0 - 1) == 1)
//@   ensures tz: (x == 0) == (result2 == 64) && imp(x != 0, (x >> result2) & 1 == 1 && x & ((1 << result2) - 1) == 0)
//@   ensures pop: result3 <= 64 && (x == 0) == (result3 == 0) && imp(x == 0xffffffffffffffff, result3 == 64)
//@   ensures rev: result4 & 0xff == x >> 56 && result4 >> 56 == x & 0xff
//@   ensures rot: result5 & 0x1fff == x >> 51 && result5 >> 13 == x & 0x7ffffffffffff

func verifStdFillBytes(a []byte) []byte {
	var buf [32]byte
	x := new(big.Int).SetBytes(a)
	return x.FillBytes(buf[:])
}

//@ func verifStdFillBytes
//@   mode int
//@   lens a 20
//@   requires len(a) == 20
//@   ensures v: len(result) == 32 && os2ip(result) == os2ip(a)
