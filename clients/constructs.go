//go:build verif

// Conformance programs for the Go constructs the symbolic executor supports beyond straight-line code (closures,
// defer, labelled break/continue, fallthrough, named results, method expressions, slicing idioms, aggregates,
// variadic calls). Each has an exact contract: the engine proves it from its own semantics of the construct, and the
// bounded sweep runs the compiled function and evaluates the contract on what it returned.

package secp256k1

import "github.com/bytemare/secp256k1/internal/field"

func verifGoNamed(a, b uint64) (lo, hi uint64) {
	lo = a & b
	hi = a | b
	return
}

//@ func verifGoNamed
//@   mode bv
//@   ensures r: result0 + result1 == a + b && result0 == a & b

func verifGoMethodExpr(e, u *field.Element) *field.Element {
	return (*field.Element).Add(e, e, u)
}

//@ func verifGoMethodExpr
//@   mode int
//@   requires wf(e) && wf(u)
//@   ensures r: wf(e) && fv(e) == fadd(old(fv(e)), old(fv(u)))
//@   modifies *e
//@   returns e

func verifGoSlices(b []byte) (byte, [4]byte) {
	x := b[2:][:4]
	y := b[:4:4]
	var arr [4]byte
	arr = [4]byte(x)
	return y[0] ^ x[1], arr
}

//@ func verifGoSlices
//@   mode int
//@   lens b 8
//@   requires len(b) == 8
//@   ensures r: result0 == xor8(b[0], b[3]) && result1[0] == b[2] && result1[3] == b[5]

func verifGoStruct(e *Element) {
	tmp := *e
	tmp.x, tmp.y = tmp.y, tmp.x
	*e = tmp
}

//@ func verifGoStruct
//@   mode int
//@   requires wf3(e)
//@   ensures r: fv(e.x) == old(fv(e.y)) && fv(e.y) == old(fv(e.x)) && fv(e.z) == old(fv(e.z))
//@   modifies *e

func verifGoLoop(a [4]uint64) uint64 {
	var r uint64
	for i := range 4 {
		if i == 2 {
			continue
		}
		switch i {
		case 0:
			r |= a[i]
		default:
			r |= a[i] >> 1
		}
	}
	for range 2 {
		r = r &^ 1
	}
	return r
}

//@ func verifGoLoop
//@   mode bv
//@   ensures r: result == (a[0] | (a[1] >> 1) | (a[3] >> 1)) & 0xfffffffffffffffe

func verifGoClosure(e *field.Element) *field.Element {
	t := field.New()
	sq := func(x *field.Element, n int) {
		for i := 0; i < n; i++ {
			x.Square(x)
		}
	}
	t.Set(e)
	sq(t, 2)
	defer func() { t.One() }()
	return e.Set(t)
}

//@ func verifGoClosure
//@   mode int
//@   requires wf(e)
//@   ensures r: wf(e) && fv(e) == fmul(fmul(old(fv(e)), old(fv(e))), fmul(old(fv(e)), old(fv(e))))
//@   modifies *e
//@   returns e

func verifGoLabel(a *[4]uint64) uint64 {
	var r uint64
outer:
	for i := 0; i < 4; i++ {
		for j := 0; j < 2; j++ {
			if i == 3 {
				break outer
			}
			if j == 1 {
				continue outer
			}
			r += a[i] & 1
		}
	}
	p := a[:]
	q := (*a)[1:3]
	return r + uint64(len(p)) + uint64(len(q))
}

//@ func verifGoLabel
//@   mode bv
//@   ensures r: result == (a[0] & 1) + (a[1] & 1) + (a[2] & 1) + 6

func verifGoSwitch(x uint64) (r uint64) {
	switch y := x & 3; {
	case y == 0:
		r = 1
		fallthrough
	case y == 1:
		r += 2
	default:
		r = 7
	}
	return
}

//@ func verifGoSwitch
//@   mode bv
//@   ensures r: result == ite(x & 3 == 0, 3, ite(x & 3 == 1, 2, 7))

type verifPair struct{ a, b [2]uint64 }

func verifGoAgg(x [2][2]uint64) uint64 {
	p := verifPair{a: x[0], b: x[1]}
	q := p
	q.a[0] = 5
	ps := []verifPair{p, q}
	return ps[1].a[0] + p.a[0] - x[0][0] + ps[0].b[1] - x[1][1]
}

//@ func verifGoAgg
//@   mode bv
//@   ensures r: result == 5

func verifGoVariadic(xs ...uint64) uint64 {
	var s uint64
	for _, x := range xs {
		s |= x
	}
	return s
}

func verifGoCallVariadic(a, b uint64) uint64 { return verifGoVariadic(a, b) | verifGoVariadic() }

//@ func verifGoCallVariadic
//@   mode bv
//@   ensures r: result == a | b

func verifGoRangePtr(u, v *[4]uint64) uint64 {
	var r uint64
	buf := [2]uint64{7, 9}
	defer clear(buf[:])
	for i := range u {
		r |= u[i] ^ v[i]
	}
	for _, x := range v {
		r |= x & 1
	}
	return r | buf[0]
}

//@ func verifGoRangePtr
//@   mode bv
//@   ensures r: result == (u[0] ^ v[0]) | (u[1] ^ v[1]) | (u[2] ^ v[2]) | (u[3] ^ v[3]) | ((v[0] | v[1] | v[2] | v[3]) & 1) | 7

func verifGoBytesShift(b []byte) (uint64, uint64) {
	var v uint64
	for i := 0; i < 8; i++ {
		v = v<<8 | uint64(b[i])
	}
	w := uint64(b[0])<<56 ^ uint64(b[1])<<48 ^ uint64(b[7])
	return v, w
}

//@ func verifGoBytesShift
//@   mode int
//@   lens b 8
//@   requires len(b) == 8
//@   ensures v: result0 == os2ip(b)
//@   ensures w: result1 == b[0]*pow2(56) + b[1]*pow2(48) + b[7]

func verifGoMask(x, y, f uint64) (uint64, uint64, uint64) {
	m := -f
	return (x & m) | (y &^ m), x ^ m, (f - 1) & x
}

//@ func verifGoMask
//@   mode int
//@   requires f <= 1
//@   ensures sel: result0 == ite(f == 1, x, y)
//@   ensures inv: result1 == ite(f == 1, pow2(64) - 1 - x, x)
//@   ensures sub: result2 == ite(f == 1, 0, x)

func verifGoByteExtract(x uint64) [8]byte {
	var out [8]byte
	w := x
	for i := 7; i >= 0; i-- {
		out[i] = byte(w)
		w >>= 8
	}
	out[0] ^= byte(x>>56) ^ uint8(x>>56&0xff)
	return out
}

//@ func verifGoByteExtract
//@   mode int
//@   ensures v: os2ip(result) == x
