#!/bin/bash
# Builds the verification engine and the Lean lemma library, offline, from files on disk only.
export GOFLAGS=-mod=mod GOPROXY=off GOSUMDB=off GOTOOLCHAIN=local
cd /verif/engine && go build -o /verif/bin/vcheck . || exit 1
if [ -x /verif/lemmas/build.sh ]; then (cd /verif/lemmas && timeout 1500 ./build.sh >/verif/build/lean-build.log 2>&1 || true); fi
echo setup done
